"""C07 Config-level extraction — structural obligations of the drivers."""

from __future__ import annotations

import ast
import re as _re
from typing import Dict, List, Optional, Set, Tuple

from ..cfg import Node
from ..core import Ctx, Report, snippet, where
from ..fold import known
from ..model import AnalysisError, Func, own_nodes, src
from ..pathsem import function_paths, resolve_local
from .common import chain, deep_resolve, loop_body_paths, mentions, names_in, order_of
from .keys import consumed, exported

PROPERTY = "C07"
LEVEL = "other"
EXPLANATION = (
    "Decides structural obligations of the config-level drivers: IOS address-group members are converted from subnet "
    "masks to wildcards before they become ACE addresses (on the same dict, from network_address and hostmask, only for "
    "ios, from keys the exporter really writes); the name filter guards every append and is forwarded unchanged; "
    "comment and blank lines are removed once, before all three views are built, and every driver parses before it "
    "reads a view; 'in'/'out' bindings update 'input'/'output' and reach the Acl constructor; section patterns agree "
    "with the headers the objects render; ACLs and groups are collected in configuration order. Does not decide "
    "exactness of section splitting for arbitrary configurations (value-level)."
)
ASSUMPTIONS = ["ipaddress.IPv4Network.network_address / hostmask are the base address and the wildcard mask of a network"]


def r07_1(ctx: Ctx, rep: Report) -> None:  # noqa: C901
    rep.rule("R07.1")
    top = ctx.func("functions._add_addgr_to_aces")
    conv = ctx.func("functions._convert_ios_addr")
    # the member -> Address conversion may live in a private helper (a generator) of the same module
    units = [top] + [g for g in ctx.cg.reach([top], include_weak=False) if g is not top and g is not conv and g.module == top.module and g.cls is None and g.name.startswith("_")]
    f = next((g for g in units if any(isinstance(x, ast.Call) and src(x.func) == "Address" and any(k.arg is None for k in x.keywords) for x in own_nodes(g.node))), top)
    cfg = ctx.cfg(f)
    rep.instance()

    def is_data(n: Node) -> Optional[str]:
        if n.kind == "stmt" and isinstance(n.ast, (ast.Assign, ast.AnnAssign)) and isinstance(getattr(n.ast, "value", None), ast.Call) and isinstance(n.ast.value.func, ast.Attribute) and n.ast.value.func.attr == "data":
            tg = n.ast.targets[0] if isinstance(n.ast, ast.Assign) else n.ast.target
            if isinstance(tg, ast.Name):
                return tg.id
        return None

    datas = [(n, is_data(n)) for n in cfg.live if is_data(n)]
    ctors = []
    for n in cfg.live:
        if n.kind == "stmt" and n.ast is not None:
            for x in ast.walk(n.ast):
                if isinstance(x, ast.Call) and src(x.func) == "Address" and any(k.arg is None for k in x.keywords):
                    ctors.append((n, x, src([k.value for k in x.keywords if k.arg is None][0])))
    if not datas or not ctors:
        rep.violation(f.qualname, "member -> Address", "group members are no longer turned into ACE addresses through data() -> Address(**d)", where(f))
    else:
        for cn, call, dname in ctors:
            src_nodes = [n for n, d in datas if d == dname]
            if not src_nodes:
                rep.violation(f.qualname, snippet(call), f"Address is built from {dname}, which is not the exported member data", where(f, call))
                continue

            def is_conv(n: Node, dname=dname) -> bool:
                if n.kind != "stmt" or n.ast is None:
                    return False
                for x in ast.walk(n.ast):
                    if isinstance(x, ast.Call) and x.args and src(x.args[0]) == dname:
                        for e in ctx.cg.all_edges(f):
                            if e.site is x and e.target is conv:
                                return True
                return False

            if cfg.all_paths_pass(src_nodes[0], cn, is_conv, labels_avoid=("exc",)):
                rep.ok(f"{f.qualname}: {snippet(call)}", f"every path from {dname} = <member>.data() passes _convert_ios_addr({dname})", where=where(f, call))
            else:
                rep.violation(f.qualname, snippet(call), "a group member reaches Address(**d) without the IOS mask -> wildcard conversion: '10.0.0.0 255.255.255.0' is read as the wildcard 0.0.0.0/... (almost everything)", where(f, call), inp="IOS config: object-group network G / 10.0.0.0 255.255.255.0; ACE with object-group G")
    # the converter itself
    rep.instance()
    d = conv.params[0]
    paths = [p for p in function_paths(ctx.cfg(conv)) if not p.raises]
    writes_line = []
    only_ios = True
    platforms_ = list(ctx.folder.const("helpers", "PLATFORMS"))
    mask_platforms = _mask_platforms(ctx, platforms_)
    for p in paths:
        stored = None
        for node, lab in p.nodes:
            if node.kind == "stmt" and isinstance(node.ast, ast.Assign) and isinstance(node.ast.targets[0], ast.Subscript) and src(node.ast.targets[0].value) == d:
                if isinstance(node.ast.targets[0].slice, ast.Constant) and node.ast.targets[0].slice.value == "line":
                    stored = deep_resolve(node.ast.value, p.env)
        # the platforms on which this path can be taken (tests of the platform against constants, evaluated per platform)
        feasible_on = set()
        for pl in platforms_:
            ok_pl = True
            for t, tr in p.atoms:
                if isinstance(t, ast.Compare) and len(t.ops) == 1 and "platform" in src(t.left) and isinstance(t.ops[0], (ast.Eq, ast.NotEq, ast.In, ast.NotIn)):
                    v = ctx.folder.fold(t.comparators[0], conv.module)
                    if isinstance(t.ops[0], (ast.Eq, ast.NotEq)) and isinstance(v, str):
                        val = (pl == v) if isinstance(t.ops[0], ast.Eq) else (pl != v)
                    elif isinstance(t.ops[0], (ast.In, ast.NotIn)) and isinstance(v, (list, tuple, set, frozenset)):
                        val = (pl in v) if isinstance(t.ops[0], ast.In) else (pl not in v)
                    else:
                        continue
                    if val != tr:
                        ok_pl = False
            if ok_pl:
                feasible_on.add(pl)
        if stored is not None:
            writes_line.append((stored, feasible_on))
            if mask_platforms is not None and feasible_on != mask_platforms:
                only_ios = False
    if not writes_line:
        rep.violation("functions._convert_ios_addr", "line rewrite", "the member line is not rewritten to a wildcard", where(conv))
    else:
        stored, _ = writes_line[0]
        txt = src(stored)
        ok_attrs = "network_address" in txt and "hostmask" in txt and txt.index("network_address") < txt.index("hostmask")
        if ok_attrs and only_ios:
            if mask_platforms is None:
                rep.note("R07.1 which platforms read a group member 'A B' as address + mask could not be read off AddressAg.line (platform guard of the rewrite not judged)")
            rep.ok("functions._convert_ios_addr", "rewrites line to '<network_address> <hostmask>'" + (f" exactly on the platforms where a group member 'A B' is address + mask: {sorted(mask_platforms)}" if mask_platforms is not None else ""), where=where(conv))
        elif not only_ios:
            got = sorted(set().union(*[fo for _s, fo in writes_line]))
            rep.violation("functions._convert_ios_addr", f"platform guard: rewrite on {got}", f"the mask -> wildcard rewrite of a group member is applied on {got}, but AddressAg reads 'A B' as address + MASK on {sorted(mask_platforms)} (as address + wildcard elsewhere): on a platform in one set and not the other the ACE gets the member with mask and wildcard confused - another set of addresses", where(conv), inp="acls('object-group network G / 10.0.0.0 255.255.0.0 / ip access-list extended A / permit ip object-group G any', platform='asa')")
        else:
            rep.violation("functions._convert_ios_addr", snippet(stored), "the wildcard must be '<network address> <host mask>' of the member network (netmask instead of hostmask keeps the subnet mask as a wildcard)", where(conv), inp="member 10.0.0.0 255.255.255.0")
    # keys it reads exist in the exporter
    rep.instance()
    ex = exported(ctx, ctx.cls("AddressAg"))
    reads = {n.slice.value for n in own_nodes(conv.node) if isinstance(n, ast.Subscript) and src(n.value) == d and isinstance(n.slice, ast.Constant) and isinstance(n.ctx, ast.Load)}
    miss = sorted(reads - set(ex))
    if miss:
        rep.violation("functions._convert_ios_addr", f"reads keys {miss}", "the converter reads keys that AddressAg.data() does not export (KeyError)", where(conv))
    else:
        rep.ok("functions._convert_ios_addr: keys", f"{sorted(reads)} ⊆ keys of AddressAg.data()", where=where(conv))
    # the member's own sequence number is cleared, and only AddressAg members are converted
    rep.instance()
    ok_members = any(isinstance(n, ast.Call) and src(n.func) == "isinstance" and "AddressAg" in src(n) for g_ in units for n in own_nodes(g_.node))
    f = top
    appends = [n for n in own_nodes(f.node) if isinstance(n, ast.Call) and isinstance(n.func, ast.Attribute) and n.func.attr == "append" and "items" in src(n.func.value)]
    if appends and ok_members:
        rep.ok("functions._add_addgr_to_aces", f"members are appended to the ACE address items ({snippet(appends[0], 50)})", where=where(f))
    else:
        rep.violation("functions._add_addgr_to_aces", "member attachment", "converted members are not appended to the referencing ACE address", where(f))
    # the group is selected by the referenced name
    rep.instance()
    sel_ok = False
    for n in own_nodes(f.node):
        if isinstance(n, (ast.ListComp, ast.GeneratorExp)) and n.generators and n.generators[0].ifs:
            c = n.generators[0].ifs[0]
            if isinstance(c, ast.Compare) and isinstance(c.ops[0], ast.Eq) and src(c.left).endswith(".name") and "addgr_name" in src(c.comparators[0]) or (isinstance(c, ast.Compare) and isinstance(c.ops[0], ast.Eq) and src(c.left).endswith(".name") and "addrgroup" in src(c.comparators[0])):
                sel_ok = True
    # ... and the referenced name is read from the very address object that receives the members
    from .common import single_env

    senv = single_env(f.node)
    recv_roots = set()
    for a in appends:
        c = chain(a.func.value)
        if c:
            recv_roots.add(c[0])
    name_roots = set()
    for n in own_nodes(f.node):
        if isinstance(n, (ast.ListComp, ast.GeneratorExp)) and n.generators and n.generators[0].ifs:
            c0 = n.generators[0].ifs[0]
            if isinstance(c0, ast.Compare) and isinstance(c0.ops[0], ast.Eq) and src(c0.left).endswith(".name"):
                rhs = deep_resolve(c0.comparators[0], senv)
                cc = chain(rhs)
                name_roots.add(cc[0] if cc else src(rhs))
    if sel_ok and recv_roots and name_roots and not (name_roots <= recv_roots):
        rep.violation("functions._add_addgr_to_aces", f"group looked up by {sorted(name_roots)}, members attached to {sorted(recv_roots)}", "the group is not looked up by the reference of the address that receives its members: with different groups in source and destination one side gets the other side's members", where(f), inp="permit ip object-group A object-group B")
    elif sel_ok:
        rep.ok("functions._add_addgr_to_aces: group lookup", "the group is chosen by equality of its name with the referenced name", where=where(f))
    else:
        rep.violation("functions._add_addgr_to_aces", "group lookup", "the attached group is not selected by name equality with the ACE's reference", where(f))


def r07_2(ctx: Ctx, rep: Report) -> None:
    rep.rule("R07.2")
    f = ctx.func("ConfigParser.acls")
    cfg = ctx.cfg(f)
    rets = [n for n in cfg.live if n.kind == "stmt" and isinstance(n.ast, ast.Return) and n.ast.value is not None]
    appended = {src(x.func.value) for n in cfg.live if n.kind == "stmt" and n.ast is not None for x in ast.walk(n.ast) if isinstance(x, ast.Call) and isinstance(x.func, ast.Attribute) and x.func.attr == "append" and isinstance(x.func.value, ast.Name)}
    acc = next((nm for nm in (names_in(rets[0].ast.value) if rets else set()) if nm in appended), "acls")
    appends = [n for n in cfg.live if n.kind == "stmt" and n.ast is not None and any(isinstance(x, ast.Call) and isinstance(x.func, ast.Attribute) and x.func.attr == "append" and src(x.func.value) == acc for x in ast.walk(n.ast))]
    rep.instance(len(appends))
    rep.floor(1, "appends to the ACL list")
    # the requested names and every local computed from them (`wanted = None if names is None else [str(s) for s in names]`)
    filt = {"names"}
    for _ in range(3):
        for x in own_nodes(f.node):
            if isinstance(x, (ast.Assign, ast.AnnAssign)) and x.value is not None:
                t = x.targets[0] if isinstance(x, ast.Assign) else x.target
                if isinstance(t, ast.Name) and names_in(x.value) & filt:
                    filt.add(t.id)
    for a in appends:
        deps = cfg.transitive_control_deps(a)
        # the filter is `names is None or name in names`: either disjunct true lets the item through
        none_t = [c for c, lab in deps if c.kind == "cond" and isinstance(c.ast, ast.Compare) and isinstance(c.ast.ops[0], ast.Is) and src(c.ast.left) in filt and lab == "T"]
        in_t = [c for c, lab in deps if c.kind == "cond" and isinstance(c.ast, ast.Compare) and isinstance(c.ast.ops[0], ast.In) and src(c.ast.comparators[0]) in filt and lab == "T"]
        # reachable only through one of the two held edges
        from .common import reachable_without_edges

        conds_none = [c for c in cfg.live if c.kind == "cond" and isinstance(c.ast, ast.Compare) and isinstance(c.ast.ops[0], (ast.Is, ast.IsNot)) and src(c.ast.left) in filt]
        conds_in = [c for c in cfg.live if c.kind == "cond" and isinstance(c.ast, ast.Compare) and isinstance(c.ast.ops[0], (ast.In, ast.NotIn)) and src(c.ast.comparators[0]) in filt and src(c.ast.left) == "name"]
        cut = {(c.id, "T" if isinstance(c.ast.ops[0], ast.Is) else "F") for c in conds_none} | {(c.id, "T" if isinstance(c.ast.ops[0], ast.In) else "F") for c in conds_in}
        loop = [n for n in cfg.live if n.kind == "for"]
        start = [s for lab, s in loop[0].succ if lab == "body"][0] if loop else cfg.entry
        lets_all_through = False
        for c in conds_none:
            held = "T" if isinstance(c.ast.ops[0], ast.Is) else "F"
            tgt = [s2 for lab, s2 in c.succ if lab == held]
            if tgt and a in cfg.reachable(tgt[0], avoid=lambda n: n in conds_in, labels_avoid=("exc",)):
                lets_all_through = True
        if conds_none and conds_in and a not in reachable_without_edges(cfg, start, cut) and not lets_all_through:
            rep.violation("ConfigParser.acls", snippet(a.ast), "without a name filter (names is None) no ACL is collected: the filter must let everything through when it is absent", where(f, a.ast), inp="acls(config) returns []")
        elif conds_none and conds_in and a not in reachable_without_edges(cfg, start, cut):
            rep.ok(f"ConfigParser.acls: {snippet(a.ast, 40)}", "reachable only when names is None or name in names", where=where(f, a.ast))
        else:
            rep.violation("ConfigParser.acls", snippet(a.ast), "an ACL is collected although it was not requested (the name filter does not guard the append)", where(f, a.ast), inp="acls(config, names=['A']) returns other lists too")
    # the filter compares the parsed name (last regex group)
    rep.instance()
    d = ctx.func("functions.acls")
    fw = False
    for n in own_nodes(d.node):
        if isinstance(n, ast.Call) and isinstance(n.func, ast.Attribute) and n.func.attr == "acls":
            for k in n.keywords:
                if k.arg == "names" and src(k.value) == "names":
                    fw = True
    nm = any(isinstance(n, ast.Assign) and isinstance(n.targets[0], ast.Name) and n.targets[0].id == "names" and src(n.value) == "kwargs.get('names')" for n in own_nodes(d.node))
    if fw and nm:
        rep.ok("functions.acls", "forwards names=kwargs.get('names') unchanged to the parser", where=where(d))
    else:
        rep.violation("functions.acls", "names", "the name filter given by the caller is not forwarded unchanged", where(d))


def r07_3(ctx: Ctx, rep: Report) -> None:
    rep.rule("R07.3")
    f = ctx.func("ConfigParser.parse_config")
    cfg = ctx.cfg(f)
    rep.instance()
    filt = None
    for n in cfg.live:
        if n.kind == "stmt" and isinstance(n.ast, ast.Assign) and isinstance(n.ast.value, ast.ListComp):
            for g in n.ast.value.generators:
                for c in g.ifs:
                    if "startswith" in src(c) and "!" in src(c):
                        filt = n
    views = [n for n in cfg.live if n.kind == "stmt" and n.ast is not None and any(isinstance(x, ast.Call) and isinstance(x.func, ast.Attribute) and x.func.attr in ("_parse_lines", "_parse_dic", "_parse_mdic") for x in ast.walk(n.ast))]
    if filt is None:
        rep.violation("ConfigParser.parse_config", "comment filter", "comment ('!') and blank lines are not removed before the views are built", where(f), inp="config with '!' lines between an ACL header and its entries")
    elif len(views) < 3:
        rep.violation("ConfigParser.parse_config", f"{len(views)} view builders", "the three views (lines, dic, mdic) are no longer all built", where(f))
    elif all(cfg.dominates(filt, v) for v in views):
        tgt = src(filt.ast.targets[0])
        args_ok = all(any(isinstance(x, ast.Call) and x.args and src(x.args[0]) == tgt for x in ast.walk(v.ast)) for v in views)
        c = [c for g in filt.ast.value.generators for c in g.ifs][0]
        keeps_nonempty = src(c).startswith("s and") or " and " in src(c)
        if args_ok and keeps_nonempty:
            rep.ok("ConfigParser.parse_config", f"`{snippet(filt.ast, 60)}` dominates all three view builders, which all read {tgt}", where=where(f, filt.ast))
        else:
            rep.violation("ConfigParser.parse_config", snippet(filt.ast), "a view is built from the unfiltered lines, or the filter no longer drops blank lines", where(f, filt.ast))
    else:
        rep.violation("ConfigParser.parse_config", "filter order", "a view is built before comments/blank lines were removed", where(f))
    for q in ("functions.acls", "functions.aces", "functions.addrgroups"):
        d = ctx.func(q)
        dcfg = ctx.cfg(d)
        rep.instance()
        parse = [n for n in dcfg.live if n.kind == "stmt" and n.ast is not None and any(isinstance(x, ast.Call) and isinstance(x.func, ast.Attribute) and x.func.attr == "parse_config" for x in ast.walk(n.ast))]
        reads = [n for n in dcfg.live if n.ast is not None and n.kind in ("stmt", "for", "cond") and any(isinstance(x, ast.Attribute) and x.attr in ("lines", "dic", "mdic", "dic_text", "mdic_text", "acls", "addgrs") and src(x.value) == "parser" for x in ast.walk(n.ast if n.kind != "for" else n.ast.iter))]
        if parse and all(dcfg.dominates(parse[0], r) for r in reads) and reads:
            rep.ok(q, "parser.parse_config() dominates every read of a parsed view", where=where(d))
        else:
            rep.violation(q, "parse before read", "a parsed view is read before parse_config() ran (or is never parsed): the driver returns nothing", where(d))


def _mask_platforms(ctx: Ctx, platforms: List[str]) -> Optional[Set[str]]:
    """Platforms on which AddressAg reads the two-quad form 'A B' through its subnet (address + mask) reader: the body of
    `AddressAg.line` is walked per platform with "the text is of the two-quad form" put in for the form tests (the other
    form tests false), locals bound on the way folded, until a `self._line__<reader>(...)` call is reached."""
    from ..fold import known as _known

    f = ctx.func("AddressAg.line.setter")
    forms = set()
    for x in own_nodes(f.node):
        if isinstance(x, ast.Call) and isinstance(x.func, ast.Attribute) and src(x.func.value) == "self" and (x.func.attr.startswith("_is_address") or x.func.attr == "_is_addrgroup"):
            forms.add(src(x))
    two_quad = {c for c in forms if "wildcard" in c or "subnet" in c}
    if not two_quad:
        return None
    out: Set[str] = set()
    found = False
    for pl in platforms:
        env: Dict[str, object] = {"self._platform": pl, "self.platform": pl}
        for c in forms:
            env[c] = c in two_quad
        alias: Dict[str, str] = {}

        def walk(stmts) -> Optional[str]:
            for st in stmts:
                if isinstance(st, (ast.Assign, ast.AnnAssign)) and st.value is not None:
                    t = st.targets[0] if isinstance(st, ast.Assign) else st.target
                    if isinstance(t, ast.Name):
                        # a reader picked into a local: `rd = self._line__a if <test> else self._line__b`
                        val = st.value
                        while isinstance(val, ast.IfExp):
                            tv = ctx.folder.fold(val.test, f.module, env)
                            if tv is True or tv is False:
                                val = val.body if tv else val.orelse
                            else:
                                break
                        if isinstance(val, ast.Attribute) and src(val.value) == "self" and val.attr.startswith("_line__"):
                            alias[t.id] = val.attr
                            continue
                        v = ctx.folder.fold(st.value, f.module, env)
                        if _known(v):
                            env[t.id] = v
                        else:
                            env.pop(t.id, None)
                    continue
                if isinstance(st, ast.If):
                    v = ctx.folder.fold(st.test, f.module, env)
                    if v is True or v is False:
                        r = walk(st.body if v else st.orelse)
                        if r:
                            return r
                        continue
                    return "?"
                for c in ast.walk(st):
                    if isinstance(c, ast.Call) and isinstance(c.func, ast.Attribute) and src(c.func.value) == "self" and c.func.attr.startswith("_line__"):
                        return c.func.attr
                    if isinstance(c, ast.Call) and isinstance(c.func, ast.Name) and c.func.id in alias:
                        return alias[c.func.id]
                    if isinstance(c, ast.Call) and isinstance(c.func, ast.IfExp):
                        fx = c.func
                        tv = ctx.folder.fold(fx.test, f.module, env)
                        if tv is True or tv is False:
                            pick = fx.body if tv else fx.orelse
                            if isinstance(pick, ast.Attribute) and pick.attr.startswith("_line__"):
                                return pick.attr
                if isinstance(st, (ast.Raise, ast.Return)):
                    return "!"
            return None

        h_ = walk(f.node.body)
        if h_ and h_ not in ("?", "!"):
            found = True
            if "subnet" in h_:
                out.add(pl)
        elif h_ == "?":
            return None
    if not found:
        return None
    return out


def _direction_pairs(ctx: Ctx, f: Func, pairs: Dict[str, Set[str]]) -> None:
    """direction literal -> keys of the per-interface record written for it."""
    from .normalise import normalised as _nrm

    f = _nrm(ctx, f, "ifexp")  # `data["input" if direction == "in" else "output"] = intf` is two stores
    cfg = ctx.cfg(f)
    lenv = ctx.folder.local_env(f)
    from .common import single_env

    senv = single_env(f.node)
    for n in cfg.live:
        if n.kind != "stmt" or n.ast is None:
            continue
        keys = set()
        for x in ast.walk(n.ast):
            if isinstance(x, ast.Call) and isinstance(x.func, ast.Attribute) and x.func.attr == "update" and x.args:
                a = x.args[0]
                if isinstance(a, ast.Call) and src(a.func) == "dict":
                    keys |= {k.arg for k in a.keywords if k.arg}
                elif isinstance(a, ast.Dict):
                    keys |= {k.value for k in a.keys if isinstance(k, ast.Constant)}
            if isinstance(x, ast.Assign) and isinstance(x.targets[0], ast.Subscript) and isinstance(x.targets[0].slice, ast.Constant):
                keys.add(x.targets[0].slice.value)
            # data[KEYS[direction]] = intf  with KEYS a constant mapping direction -> key
            sl = None
            if isinstance(x, ast.Assign) and isinstance(x.targets[0], ast.Subscript):
                sl = x.targets[0].slice
                if isinstance(sl, ast.Name) and sl.id in senv:
                    sl = senv[sl.id]  # key = KEYS.get(direction) ... data[key] = intf
            tab_expr = None
            if isinstance(sl, ast.Subscript) and "direction" in src(sl.slice):
                tab_expr = sl.value
            elif isinstance(sl, ast.Call) and isinstance(sl.func, ast.Attribute) and sl.func.attr == "get" and sl.args and "direction" in src(sl.args[0]):
                tab_expr = sl.func.value
            if tab_expr is not None:
                table = ctx.folder.fold(tab_expr, f.module, lenv)
                if isinstance(table, dict):
                    for d_, k_ in table.items():
                        if k_ in ("input", "output"):
                            pairs.setdefault(d_, set()).add(k_)
        keys &= {"input", "output"}
        if not keys:
            continue
        # direct control dependence: the transitive closure runs through the loop's back edge (an iteration happens
        # only if the previous one did not raise) and would attribute every store to every direction
        deps = [(c, lab) for c, lab in cfg.control_deps(n) if c.kind == "cond" and isinstance(c.ast, ast.Compare) and len(c.ast.ops) == 1 and isinstance(c.ast.ops[0], ast.Eq) and isinstance(c.ast.comparators[0], ast.Constant) and "direction" in src(c.ast.left)]
        for c, lab in deps:
            if lab == "T":
                pairs.setdefault(c.ast.comparators[0].value, set()).update(keys)
        if deps and all(lab == "F" for _c, lab in deps):
            # the `else` of a test for one direction: whatever else an earlier guard (`direction not in (...)`: raise) lets through
            adm = None
            for y in own_nodes(f.node):
                if isinstance(y, ast.If) and isinstance(y.test, ast.Compare) and len(y.test.ops) == 1 and isinstance(y.test.ops[0], ast.NotIn) and "direction" in src(y.test.left) and y.body and isinstance(y.body[-1], ast.Raise):
                    v = ctx.folder.fold(y.test.comparators[0], f.module, lenv)
                    if isinstance(v, (list, tuple, set, frozenset, dict)):
                        adm = set(v)
            if adm is not None:
                rest = adm - {c.ast.comparators[0].value for c, _lab in deps}
                if len(rest) == 1:
                    pairs.setdefault(next(iter(rest)), set()).update(keys)


def r07_4(ctx: Ctx, rep: Report) -> None:
    rep.rule("R07.4")
    f = ctx.func("ConfigParser._acls_on_interfaces")
    # the per-interface part may live in a private helper of the class
    from .common import callee_of_self_call

    scope = [f]
    for x in own_nodes(f.node):
        if isinstance(x, ast.Call):
            m = callee_of_self_call(ctx, f, x)
            if m is not None and m not in scope and m.name.startswith("_"):
                scope.append(m)
    pairs: Dict[str, Set[str]] = {}
    for g in scope:
        _direction_pairs(ctx, g, pairs)
    cfg = ctx.cfg(f)
    rep.instance()
    if pairs == {"in": {"input"}, "out": {"output"}}:
        rep.ok("ConfigParser._acls_on_interfaces", "'in' updates 'input', 'out' updates 'output' (a bijection)", where=where(f))
    else:
        rep.violation("ConfigParser._acls_on_interfaces", f"direction -> key {dict((k, sorted(v)) for k, v in pairs.items())}", "inbound and outbound bindings are crossed or merged", where(f), inp="interface X / ip access-group A in  ->  reported as output")
    # the regex: (name) (direction), name is the first group
    rep.instance()
    pats = []
    for n in [y for g in scope for y in own_nodes(g.node)]:
        if isinstance(n, ast.Call) and src(n.func) in ("re.findall", "re.search", "re.match") and n.args:
            v = ctx.folder.fold(n.args[0], f.module)
            if isinstance(v, str):
                pats.append(v)
    good = any(_re.findall(p, "ip access-group NAME in") == [("NAME", "in")] for p in pats)
    for_t = [n for g in scope for n in own_nodes(g.node) if isinstance(n, ast.For) and isinstance(n.target, ast.Tuple) and len(n.target.elts) == 2]
    order_ok = any([src(e) for e in lp.target.elts] == ["acl_name", "direction"] for lp in for_t)
    # the name is whatever stands between the keyword and the direction: ACL names carry '-', '.', ':' and the like (the
    # section header reads any non-blank run), so the binding pattern must read the same names
    witnesses = ["NAME", "EDGE-OUT", "MGMT.V2", "A_1", "v6:in/1"]
    narrow = [w for w in witnesses if not any(_re.findall(p, f"ip access-group {w} in") == [(w, "in")] for p in pats)]
    if good and order_ok and narrow:
        rep.violation("ConfigParser._acls_on_interfaces", f"patterns {pats}", f"the binding pattern does not read the ACL names {narrow}: an ACL whose name carries such a character is extracted without its interfaces", where(f), inp=f"interface X / ip access-group {narrow[0]} in")
    elif good and order_ok:
        rep.ok("ConfigParser._acls_on_interfaces: pattern", f"{pats[0]!r} yields (name, direction)", where=where(f))
    else:
        rep.violation("ConfigParser._acls_on_interfaces", f"patterns {pats}", "name and direction are not read as (first group, second group) of 'ip access-group NAME in|out'", where(f))
    # binding joined by name equality; input/output reach Acl(**d)
    g = ctx.func("ConfigParser._add_acl_interfaces")
    from .normalise import normalised as _normalised

    g = _normalised(ctx, g, "unroll")  # `for direction in ("input", "output"): acl_d[direction].append(intf_acl[direction])`
    rep.instance()
    join = any(isinstance(n, ast.Compare) and isinstance(n.ops[0], ast.Eq) and "['name']" in src(n.left) and "['name']" in src(n.comparators[0]) for n in own_nodes(g.node))
    app = {}
    # `if name := intf_acl["input"]: acl_d["input"].append(name)`: the appended name stands for the tested lookup
    walrus_of: Dict[int, ast.AST] = {}
    for i_ in own_nodes(g.node):
        if isinstance(i_, ast.If):
            ws = {w.target.id: w.value for w in ast.walk(i_.test) if isinstance(w, ast.NamedExpr) and isinstance(w.target, ast.Name)}
            if ws:
                for b_ in i_.body:
                    for y_ in ast.walk(b_):
                        if isinstance(y_, ast.Call) and isinstance(y_.func, ast.Attribute) and y_.func.attr == "append" and y_.args and isinstance(y_.args[0], ast.Name) and y_.args[0].id in ws:
                            walrus_of.setdefault(id(y_), ws[y_.args[0].id])
    for n in own_nodes(g.node):
        if isinstance(n, ast.Call) and isinstance(n.func, ast.Attribute) and n.func.attr == "append" and isinstance(n.func.value, ast.Subscript) and n.args:
            a0 = walrus_of.get(id(n), n.args[0])
            if not isinstance(a0, ast.Subscript):
                continue
            k1 = n.func.value.slice.value if isinstance(n.func.value.slice, ast.Constant) else None
            k2 = a0.slice.value if isinstance(a0.slice, ast.Constant) else None
            app[k1] = k2
    if join and app == {"input": "input", "output": "output"}:
        rep.ok("ConfigParser._add_acl_interfaces", "bindings are joined by ACL name; input -> input, output -> output", where=where(g))
    else:
        rep.violation("ConfigParser._add_acl_interfaces", f"join={join} appends={app}", "interface bindings are not attached to the ACL of the same name under the same direction", where(g))
    rep.instance()
    co = consumed(ctx, ctx.cls("Acl"))
    pa = ctx.func("ConfigParser.acls")
    keys: Set[str] = set()
    for n in own_nodes(pa.node):
        if isinstance(n, ast.Call) and src(n.func) == "dict":
            keys |= {k.arg for k in n.keywords if k.arg}
        elif isinstance(n, ast.Dict):
            keys |= {k.value for k in n.keys if isinstance(k, ast.Constant) and isinstance(k.value, str)}
    miss = sorted(k for k in keys if k not in co)
    if {"input", "output", "line", "name", "platform"} <= keys and not miss:
        rep.ok("ConfigParser.acls -> Acl(**d)", f"keys {sorted(keys)} are all read by the Acl constructor", where=where(pa))
    else:
        rep.violation("ConfigParser.acls", f"keys {sorted(keys)}", f"the parsed ACL dict does not agree with the Acl constructor (unread: {miss})", where(pa))


_RE_FLAGS = {"I": _re.I, "IGNORECASE": _re.I, "M": _re.M, "MULTILINE": _re.M, "S": _re.S, "DOTALL": _re.S, "X": _re.X, "VERBOSE": _re.X}


def _fold_flags(e: Optional[ast.AST]) -> Optional[int]:
    if e is None:
        return 0
    if isinstance(e, ast.Constant) and isinstance(e.value, int):
        return e.value
    if isinstance(e, ast.Attribute) and src(e.value) == "re" and e.attr in _RE_FLAGS:
        return int(_RE_FLAGS[e.attr])
    if isinstance(e, ast.BinOp) and isinstance(e.op, ast.BitOr):
        a, b = _fold_flags(e.left), _fold_flags(e.right)
        return None if a is None or b is None else a | b
    return None


def interface_filter(ctx: Ctx, rep: Report, rid: str = "R07.8") -> None:
    """The filter that selects interface sections carrying an ACL binding finds the `ip access-group` line wherever it
    stands in the section (first line or after other interface commands) - the writer of that text is the device."""
    rep.rule(rid)
    f = ctx.func("ConfigParser._interfaces_w_acl")
    rep.instance()
    calls = [n for n in own_nodes(f.node) if isinstance(n, ast.Call) and src(n.func) in ("re.search", "re.findall", "re.match", "re.fullmatch") and len(n.args) >= 2]
    members = [n for n in own_nodes(f.node) if isinstance(n, ast.Compare) and len(n.ops) == 1 and isinstance(n.ops[0], ast.In) and isinstance(n.left, ast.Constant)]
    samples = ["ip access-group NAME in", "description uplink\nip address 10.0.1.1 255.255.255.0\nip access-group NAME in", "ip address 10.0.1.1 255.255.255.0\nip access-group NAME out\nno shutdown"]
    if calls:
        c = calls[0]
        pat = ctx.folder.fold(c.args[0], f.module, ctx.folder.local_env(f))
        fl = _fold_flags(c.args[2] if len(c.args) > 2 else next((k.value for k in c.keywords if k.arg == "flags"), None))
        if not isinstance(pat, str) or fl is None:
            rep.violation(f.qualname, snippet(c), "the interface filter's pattern or flags are not constants: which sections are kept cannot be decided", where(f, c))
            return
        fn = {"re.search": _re.search, "re.findall": _re.findall, "re.match": _re.match, "re.fullmatch": _re.fullmatch}[src(c.func)]
        missed = [t for t in samples if not fn(pat, t, fl)]
        if missed:
            rep.violation(f.qualname, f"{snippet(c)}", f"the filter does not find the binding in {missed[0]!r}: an interface whose `ip access-group` line is not the first line of its section loses its binding", where(f, c), inp="interface Ethernet1 / description x / ip access-group A in")
        else:
            rep.ok(f"{f.qualname}: {snippet(c, 60)}", "finds `ip access-group` on any line of the section", where=where(f, c))
    elif members:
        rep.ok(f"{f.qualname}: {snippet(members[0], 60)}", "substring test: position independent", where=where(f, members[0]))
    else:
        rep.violation(f.qualname, "filter", "no test for `ip access-group` in the section text was found", where(f))


def r07_6(ctx: Ctx, rep: Report) -> None:
    """Configuration order: the drivers build their result lists in the order of the parsed sections."""
    rep.rule("R07.6")
    for q, retname in (("ConfigParser.acls", None), ("ConfigParser.addgrs", None)):
        f = ctx.func(q)
        cfg = ctx.cfg(f)
        rep.instance()
        rets = [n for n in cfg.live if n.kind == "stmt" and isinstance(n.ast, ast.Return) and n.ast.value is not None]
        if not rets:
            continue
        state, why = order_of(ctx, f, rets[0].ast.value)
        if state.startswith("ordered:self.dic_text") or state.startswith("ordered:self.dic"):
            rep.ok(q, f"result follows the section dictionary order ({why})", where=where(f))
        else:
            rep.violation(q, f"return {snippet(rets[0].ast.value)}", f"the result is not in configuration order: {state} ({why})", where(f))
    for q in ("functions.acls", "functions.addrgroups"):
        f = ctx.func(q)
        rep.instance()
        rets = [n.value for n in own_nodes(f.node) if isinstance(n, ast.Return) and n.value is not None]
        state, why = order_of(ctx, f, rets[0]) if rets else ("unknown", "")
        if state.startswith("ordered"):
            rep.ok(q, f"objects in the order of the parsed dicts ({why})", where=where(f))
        else:
            rep.violation(q, f"return {snippet(rets[0]) if rets else ''}", f"objects are not returned in configuration order: {state} ({why})", where(f))


def group_test_is_per_address(ctx: Ctx, rep: Report, rid: str = "R07.9") -> None:
    """Whether the referenced group is defined is decided per address: the test filters the address it was asked about
    and nothing else (an undefined group on one side must not take the defined group of the other side with it)."""
    rep.rule(rid)
    f = ctx.func("functions._add_addgr_to_aces")
    chk = ctx.prog.find_func("functions._check_addgr")
    rep.require(chk is not None, "functions._check_addgr vanished")
    calls = [e.site for e in ctx.cg.all_edges(f) if e.target is chk and isinstance(e.site, ast.Call)]
    rep.instance(len(calls))
    rep.floor(1, "calls of _check_addgr in _add_addgr_to_aces")
    from .common import bind_call

    for c in calls:
        b = bind_call(chk, c, bound=False) or {}
        addr_params = [p_ for p_ in chk.params if "addr" in p_ and "addgr" not in p_] or chk.params[2:3]
        a = b.get(addr_params[0]) if addr_params else None
        subject = a.id if isinstance(a, ast.Name) else None
        verdict = None
        n = c
        while n is not None and n is not f.node:
            par = getattr(n, "_parent", None)
            if isinstance(par, ast.Call) and isinstance(par.func, ast.Name) and par.func.id in ("all", "any") :
                verdict = f"the per-address answers are folded into one by {par.func.id}(): an undefined group on one side decides about the other side too"
                break
            if isinstance(par, ast.comprehension) and n in par.ifs:
                if subject is not None and subject in {x.id for x in ast.walk(par.target) if isinstance(x, ast.Name)}:
                    verdict = ""
                else:
                    verdict = "the filter is not on the address that was tested"
                break
            if isinstance(par, ast.If) and (n is par.test or any(n is x for x in ast.walk(par.test))):
                loop = par
                while loop is not None and not isinstance(loop, ast.For):
                    loop = getattr(loop, "_parent", None)
                if loop is not None and subject is not None and subject in {x.id for x in ast.walk(loop.target) if isinstance(x, ast.Name)}:
                    verdict = ""
                else:
                    verdict = "the test guards more than the address it was asked about (its nearest loop does not run over the tested address)"
                break
            n = par
        if verdict == "":
            rep.ok(f"functions._add_addgr_to_aces: {snippet(c, 50)}", f"filters `{subject}` only", where=where(f, c))
        else:
            rep.violation("functions._add_addgr_to_aces", snippet(c, 60), verdict or "the answer of the group test is not used as a per-address filter", where(f, c), inp="permit ip object-group DEFINED object-group UNDEFINED: the defined group is not expanded")


def bindings_booked_by_name(ctx: Ctx, rep: Report, rid: str = "R07.14") -> None:
    """Every `ip access-group NAME in|out` line of an interface is booked under ITS OWN name: the record that receives the
    interface is made (or looked up) inside the loop over the binding lines, from that line's name - a record made once
    per interface from the first line's name books the second ACL's direction under the first ACL."""
    from .common import callee_of_self_call

    rep.rule(rid)
    f = ctx.func("ConfigParser._acls_on_interfaces")
    scope = [f]
    for x in own_nodes(f.node):
        if isinstance(x, ast.Call):
            m = callee_of_self_call(ctx, f, x)
            if m is not None and m not in scope and m.name.startswith("_"):
                scope.append(m)
    n = 0
    for g in scope:
        for lp in [x for x in own_nodes(g.node) if isinstance(x, ast.For) and isinstance(x.target, ast.Tuple) and len(x.target.elts) == 2 and all(isinstance(e, ast.Name) for e in x.target.elts)]:
            name_v = lp.target.elts[0].id
            inside = {id(y) for b in lp.body for y in ast.walk(b)}
            # only the innermost (name, direction) loop owns a write
            for sub_lp in [y for b in lp.body for y in ast.walk(b) if isinstance(y, ast.For)]:
                inside -= {id(y) for y in ast.walk(sub_lp)}
            # statements of the loop that write the interface into a record: R.update(...) / R[key] = ...
            recs = set()
            for y in ast.walk(lp):
                if id(y) not in inside:
                    continue
                if isinstance(y, ast.Call) and isinstance(y.func, ast.Attribute) and y.func.attr == "update" and isinstance(y.func.value, ast.Name):
                    recs.add(y.func.value.id)
                if isinstance(y, ast.Assign) and isinstance(y.targets[0], ast.Subscript) and isinstance(y.targets[0].value, ast.Name):
                    recs.add(y.targets[0].value.id)
            for r_ in sorted(recs):
                n += 1
                rep.instance()
                defs_in = [y for y in ast.walk(lp) if id(y) in inside and isinstance(y, (ast.Assign, ast.AnnAssign)) and y.value is not None and any(isinstance(t, ast.Name) and t.id == r_ for t in (y.targets if isinstance(y, ast.Assign) else [y.target]))]

                def chosen_by_name(v: ast.AST) -> bool:
                    # a lookup in a per-interface table is by the line's name; a fresh record carries the line's name
                    if isinstance(v, ast.Call) and isinstance(v.func, ast.Attribute) and v.func.attr in ("setdefault", "get") and v.args:
                        v = v.args[0]
                    elif isinstance(v, ast.Subscript):
                        v = v.slice
                    return any(isinstance(z, ast.Name) and z.id == name_v for z in ast.walk(v))

                if defs_in and all(chosen_by_name(d.value) for d in defs_in):
                    rep.ok(f"{g.qualname}: record `{r_}`", f"made / looked up inside the loop from `{name_v}` of the binding line", where=where(g, defs_in[0]))
                else:
                    outer = [y for y in own_nodes(g.node) if id(y) not in inside and isinstance(y, (ast.Assign, ast.AnnAssign)) and y.value is not None and any(isinstance(t, ast.Name) and t.id == r_ for t in (y.targets if isinstance(y, ast.Assign) else [y.target]))]
                    at = outer[0] if outer else lp
                    rep.violation(g.qualname, f"{snippet(at, 60)} ... for {name_v}, ... in {snippet(lp.iter, 20)}", f"the record `{r_}` that receives the interface is made once per interface, outside the loop over the binding lines, and is not chosen by `{name_v}`: with two different ACLs on one interface the second one's direction is booked under the first ACL, and the second ACL has no interface", where(g, at), inp="interface X / ip access-group A in / ip access-group B out")
    if n == 0:
        rep.note(f"{rid} no loop over (name, direction) binding lines that writes a record was recognised (not judged)")


def only_commands_are_bindings(ctx: Ctx, rep: Report, rid: str = "R07.15") -> None:
    """Unrelated text does not change the result: (a) the pattern that reads the bindings of a section matches whole
    `ip access-group NAME in|out` command lines only - not the same words inside a description, not the `no` form; (b) a
    section that is not an interface and happens to contain the words (a template, a banner) is left out, it does not
    abort the extraction."""
    rep.rule(rid)
    f = ctx.func("ConfigParser._acls_on_interfaces")
    from .common import callee_of_self_call

    scope = [f]
    for x in own_nodes(f.node):
        if isinstance(x, ast.Call):
            m = callee_of_self_call(ctx, f, x)
            if m is not None and m not in scope and m.name.startswith("_") and m.name != "_interfaces_w_acl":
                scope.append(m)
    n = 0
    for g in scope:
        for c in [y for y in own_nodes(g.node) if isinstance(y, ast.Call) and src(y.func) in ("re.findall", "re.finditer") and len(y.args) >= 2]:
            pat = ctx.folder.fold(c.args[0], g.module, ctx.folder.local_env(g))
            fl = _fold_flags(c.args[2] if len(c.args) > 2 else next((k.value for k in c.keywords if k.arg == "flags"), None))
            if not isinstance(pat, str) or fl is None or "access-group" not in pat:
                continue
            n += 1
            rep.instance()
            section = "description old ip access-group OLD in removed\nip address 10.0.0.1 255.255.255.0\nno ip access-group GONE out\nip access-group REAL in"
            got = [tuple(m_) if isinstance(m_, tuple) else (m_,) for m_ in _re.findall(pat, section, fl)]
            names = [m_[0] for m_ in got]
            if names == ["REAL"]:
                rep.ok(f"{g.qualname}: {pat!r}", "reads the binding command only (not the words inside a description, not the `no` form)", where=where(g, c))
            else:
                rep.violation(g.qualname, f"{pat!r} on a section with a description and a `no` line -> {got}", "the binding pattern matches the words `ip access-group` anywhere in a line: a description that mentions an old binding, or a `no ip access-group` line, is read as a binding (a wrong interface list, or ValueError for the 'direction' that follows) - unrelated text changes the result", where(g, c), inp="interface Gi1 / description old ip access-group ACL1 removed / ip access-group ACL1 in")
    # (b) sections that are not interfaces
    w = ctx.func("ConfigParser._interfaces_w_acl")
    rep.instance()
    keyed = any(isinstance(y, ast.Call) and isinstance(y.func, ast.Attribute) and y.func.attr == "startswith" and y.args and isinstance(ctx.folder.fold(y.args[0], w.module), str) and str(ctx.folder.fold(y.args[0], w.module)).startswith("interface") for y in own_nodes(w.node))
    aborts = [y for g in scope for y in own_nodes(g.node) if isinstance(y, ast.If) and "startswith" in src(y.test) and "interface" in src(y.test) and y.body and isinstance(y.body[-1], ast.Raise)]
    if keyed or not aborts:
        rep.ok("ConfigParser._interfaces_w_acl", "only interface sections are looked at" if keyed else "a section that is not an interface does not abort the extraction", where=where(w))
    else:
        rep.violation("ConfigParser._acls_on_interfaces", snippet(aborts[0].test, 50) + ": raise", "every section whose text contains the words `ip access-group` is taken for an interface, and one that is not (an IOS-XE `template`, a banner) aborts acls() with ValueError('invalid interface'): an unrelated section changes the result", where(f, aborts[0]), inp="template T / ip access-group ACL1 in   (next to a valid ACL and interface)")
    if n == 0:
        rep.note(f"{rid} the binding pattern could not be folded - part (a) not judged")


def sections_keep_every_line(ctx: Ctx, rep: Report, rid: str = "R07.13") -> None:
    """The section dictionary the extraction reads from keeps every line of a section: a child line is any line that
    starts with white space (one blank, two, a tab - not a particular indent), it is added whether or not an equal line
    is already there (two identical remarks are two lines), and every parsed address group is built (not only those a
    pre-scan of the entries found)."""
    import re as _re2

    rep.rule(rid)
    f = ctx.func("ConfigParser._parse_dic")
    cfg = ctx.cfg(f)
    # ---- child-line test
    rep.instance()
    conds = [c for c in cfg.live if c.kind == "cond" and c.ast is not None]
    child = None
    for c in conds:
        t = c.ast
        txt = src(t)
        if isinstance(t, ast.Call) and src(t.func) in ("re.match", "re.search") and t.args:
            pat = ctx.folder.fold(t.args[0], f.module)
            if isinstance(pat, str) and pat in (r"\s", r"\s+", r"^\s", r"[ \t]", r"^[ \t]"):
                child = ("ok", c)
            elif isinstance(pat, str) and all(_re2.match(pat, w) for w in (" x", "  x", "\tx", "    x")) and not _re2.match(pat, "x"):
                child = ("ok", c)
        if isinstance(t, ast.Call) and isinstance(t.func, ast.Attribute) and t.func.attr == "startswith" and t.args:
            v = ctx.folder.fold(t.args[0], f.module)
            if isinstance(v, str) and v and not v.strip():
                child = child or ("narrow", c, v)
            if isinstance(v, tuple) and v and all(isinstance(x, str) and x and not x.strip() for x in v):
                child = child or (("ok", c) if {" ", "\t"} <= set(v) else ("narrow", c, v))
        if "isspace()" in txt and "[0]" in txt or "[:1]" in txt and "isspace()" in txt:
            child = child or ("ok", c)
    if child is None:
        rep.note(f"{rid} the child-line test of ConfigParser._parse_dic was not recognised (not judged)")
    elif child[0] == "ok":
        rep.ok("ConfigParser._parse_dic: child lines", f"{snippet(child[1].ast, 40)}: any leading white space", where=where(f, child[1].ast))
    else:
        rep.violation("ConfigParser._parse_dic", snippet(child[1].ast, 50), f"a child line is recognised by the fixed indent {child[2]!r}: sections indented by one blank (what a device prints) or by a tab have no lines, and the ACLs come back empty without an error", where(f, child[1].ast), inp="a configuration indented by one blank")
    # ---- no de-duplication
    rep.instance()
    dedup = [c for c in conds if any(isinstance(x, ast.Compare) and len(x.ops) == 1 and isinstance(x.ops[0], (ast.NotIn, ast.In)) and isinstance(x.left, ast.Name) for x in ast.walk(c.ast))]
    grows = {src(x.func.value) for x in own_nodes(f.node) if isinstance(x, ast.Call) and isinstance(x.func, ast.Attribute) and x.func.attr in ("append", "extend") }
    bad = [c for c in dedup if any(src(x.comparators[0]) in grows or "data" in src(x.comparators[0]) for x in ast.walk(c.ast) if isinstance(x, ast.Compare))]
    if bad:
        rep.violation("ConfigParser._parse_dic", snippet(bad[0].ast, 50), "a line is kept only when no equal line of the section is there yet: repeated lines of a section (two identical remarks, the same entry twice) are one line", where(f, bad[0].ast), inp="an IOS ACL with 'remark ----------' twice")
    else:
        rep.ok("ConfigParser._parse_dic: lines of a section", "added without looking at the lines already there", where=where(f))
    # ---- every parsed group is built
    top = ctx.func("functions._add_addgr_to_aces")
    rep.instance()
    builds = [x for x in own_nodes(top.node) if isinstance(x, (ast.ListComp, ast.GeneratorExp)) and isinstance(x.elt, ast.Call) and src(x.elt.func) == "AddrGroup"]
    filt = [x for x in builds if any(g.ifs for g in x.generators)]
    if filt:
        rep.violation("functions._add_addgr_to_aces", snippet(filt[0], 70), "only some of the parsed address groups are built: a group that the filter did not foresee (referenced on the other side of an entry) is reported as not found and its members are missing", where(top, filt[0]), inp="a group used only as destination")
    elif builds:
        rep.ok("functions._add_addgr_to_aces: groups", f"{snippet(builds[0], 50)}: every parsed group", where=where(top, builds[0]))
    else:
        rep.note(f"{rid} the construction of the address groups was not recognised as a comprehension (not judged)")


def every_reference_expanded(ctx: Ctx, rep: Report, rid: str = "R07.12") -> None:
    """Every address of an entry that references a group gets that group's members, and every member of the group is
    carried over: the addresses that are expanded are the entry's (source, destination) pair narrowed by filters only
    (a dict or set keyed by the group name merges the two sides when both reference the same group), and a member is
    left out only for what it IS (its class), never for a value it holds."""
    from .common import loop_body_paths

    rep.rule(rid)
    top = ctx.func("functions._add_addgr_to_aces")
    conv = ctx.func("functions._convert_ios_addr")
    units = [top] + [g for g in ctx.cg.reach([top], include_weak=False) if g is not top and g is not conv and g.module == top.module and g.cls is None and g.name.startswith("_")]
    # ---- the addresses that receive members
    recv_loops = []
    for n in own_nodes(top.node):
        if isinstance(n, ast.For) and isinstance(n.target, ast.Name):
            tv = n.target.id
            if any(isinstance(x, ast.Call) and isinstance(x.func, ast.Attribute) and x.func.attr in ("append", "extend") and src(x.func.value).startswith(tv + ".") and "items" in src(x.func.value) for b in n.body for x in ast.walk(b)):
                recv_loops.append(n)
    rep.instance()
    if not recv_loops:
        rep.violation(top.qualname, "receiving loop", "no loop over the referencing addresses of an entry appends the members to them", where(top))
    defs: Dict[str, List[ast.AST]] = {}
    for n in own_nodes(top.node):
        if isinstance(n, (ast.Assign, ast.AnnAssign)) and n.value is not None:
            t = n.targets[0] if isinstance(n, ast.Assign) else n.target
            if isinstance(t, ast.Name):
                defs.setdefault(t.id, []).append(n.value)

    visiting: Set[int] = set()

    def narrowing_only(e: ast.AST, depth: int = 0) -> Optional[ast.AST]:
        """None when `e` is the (src, dst) pair narrowed by filters; else the sub-expression that is something else."""
        if depth > 12:
            return e
        if isinstance(e, ast.Name):
            for d in defs.get(e.id, []):
                if id(d) in visiting:
                    continue  # x = [o for o in x if ...]: the earlier binding is judged on its own
                visiting.add(id(d))
                bad = narrowing_only(d, depth + 1)
                visiting.discard(id(d))
                if bad is not None:
                    return bad
            return None if e.id in defs else e
        if isinstance(e, (ast.Tuple, ast.List)) and e.elts and all(isinstance(x, ast.Attribute) for x in e.elts):
            return None
        if isinstance(e, (ast.ListComp, ast.GeneratorExp)) and len(e.generators) == 1 and isinstance(e.elt, ast.Name) and src(e.elt) == src(e.generators[0].target):
            return narrowing_only(e.generators[0].iter, depth + 1)
        if isinstance(e, ast.Call) and isinstance(e.func, ast.Name) and e.func.id in ("list", "tuple") and len(e.args) == 1:
            return narrowing_only(e.args[0], depth + 1)
        if isinstance(e, ast.Call) and isinstance(e.func, ast.Name) and e.func.id == "filter" and len(e.args) == 2:
            return narrowing_only(e.args[1], depth + 1)
        return e

    for lp in recv_loops:
        rep.instance()
        bad = narrowing_only(lp.iter)
        if bad is None:
            rep.ok(f"{top.qualname}: for {src(lp.target)} in {snippet(lp.iter, 30)}", "the entry's (source, destination) pair, narrowed by filters only", where=where(top, lp))
        else:
            rep.violation(top.qualname, f"for {src(lp.target)} in {snippet(lp.iter, 30)}: {snippet(bad, 60)}", "the addresses that receive members are not the entry's own (source, destination) pair narrowed by filters: an entry that references the same group on both sides gets the members on one side only (or an address is processed twice)", where(top, bad), inp="permit ip object-group G object-group G")
    # ---- the members
    n_member_loops = 0
    # a call that exports the member: `<member>.data()`, or a call of a helper of this module that does so with its argument
    exporters = {g_.name for g_ in units if g_ is not top and any(isinstance(x, ast.Call) and isinstance(x.func, ast.Attribute) and x.func.attr == "data" for x in own_nodes(g_.node)) and not any(isinstance(x, ast.For) for x in own_nodes(g_.node))}

    def exports(x: ast.AST) -> bool:
        return isinstance(x, ast.Call) and ((isinstance(x.func, ast.Attribute) and x.func.attr == "data") or (isinstance(x.func, ast.Name) and x.func.id in exporters))

    for g in units:
        cfg = ctx.cfg(g)
        for lp in [x for x in cfg.live if x.kind == "for"]:
            def nearest_for(x: ast.AST) -> Optional[ast.AST]:
                p_ = getattr(x, "_parent", None)
                while p_ is not None and not isinstance(p_, (ast.For, ast.FunctionDef)):
                    p_ = getattr(p_, "_parent", None)
                return p_

            if not any(exports(x) and nearest_for(x) is lp.ast for b in lp.ast.body for x in ast.walk(b)):
                continue
            n_member_loops += 1
            rep.instance()
            worst = None
            for path in loop_body_paths(cfg, lp):
                if path[-1][0] is not lp:
                    continue
                converted = any(nd.kind == "stmt" and nd.ast is not None and any(exports(x) for x in ast.walk(nd.ast)) for nd, _ in path)
                if converted:
                    continue
                atoms = [(nd.ast, lab) for nd, lab in path if nd.kind == "cond" and lab in ("T", "F")]
                other = [a for a, _lab in atoms if not (isinstance(a, ast.Call) and src(a.func) == "isinstance")]
                if other or not atoms:
                    worst = (other[0] if other else lp.ast)
                    break
            if worst is not None:
                rep.violation(g.qualname, f"member skipped under {snippet(worst, 50)}", "a member of the group is left out for a value it holds, not for its kind: the entry carries fewer networks than the group has (a non-contiguous member has no single network either)", where(g, worst), inp="nxos group with a member '10.3.0.10 0.0.255.0'")
            else:
                rep.ok(f"{g.qualname}: for {src(lp.ast.target)} in {snippet(lp.ast.iter, 30)}", "a member is passed over only for its class", where=where(g, lp.ast))
    rep.instance()
    if n_member_loops == 0:
        rep.violation(top.qualname, "member loop", "no loop turns the members of the group into addresses", where(top))


def run(ctx: Ctx, rep: Report, tier: str) -> None:
    r07_1(ctx, rep)
    r07_2(ctx, rep)
    r07_3(ctx, rep)
    r07_4(ctx, rep)
    r07_6(ctx, rep)
    # R07.7 no line of the configuration is refused before it is parsed (the normaliser accepts every string)
    from .c01 import normaliser_total

    normaliser_total(ctx, rep, rid="R07.7")
    interface_filter(ctx, rep)
    group_test_is_per_address(ctx, rep)
    every_reference_expanded(ctx, rep)
    sections_keep_every_line(ctx, rep)
    bindings_booked_by_name(ctx, rep)
    # R07.16 ... and the records of two ACLs are two objects (C17 R17.7: no mutable value shared through dict.fromkeys)
    from .c17 import no_shared_fromkeys_value

    no_shared_fromkeys_value(ctx, rep, rid="R07.16")
    only_commands_are_bindings(ctx, rep)
    # R07.10 a member reaches the ACE through its rendered line: the kind tests single out exactly the network the
    # rendered keyword stands for (C01's classification guards); R07.11 entries are stored in line order (C12 R12.4)
    from .c01 import classification_guards
    from .c12 import r12_4

    classification_guards(ctx, rep, rid="R07.10")
    sub = Report("C07")
    r12_4(ctx, sub)
    rep.absorb(sub, "R07.11")
    # R07.5 section keys agree with object headers
    from .c06 import r06_1

    sub = Report("C07")
    r06_1(ctx, sub)
    rep.absorb(sub, "R07.5")


# what the later rounds (seeding rounds 2-5, refactor twins, defect hunt) added to what the check decides
LATER_ROUNDS = "each binding line is booked under its own ACL name, only whole `ip access-group` command lines of interface sections count, the mask-to-wildcard rewrite applies on exactly the platforms whose group members are address+mask, sections keep every line"
EXPLANATION = EXPLANATION.replace(" Does not decide", " Later rounds added: " + LATER_ROUNDS + ". Does not decide", 1) if " Does not decide" in EXPLANATION else EXPLANATION + " Later rounds added: " + LATER_ROUNDS + "."
