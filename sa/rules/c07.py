"""C07 — not implemented yet (fail closed)."""
from ..model import AnalysisError
PROPERTY = "C07"
LEVEL = "other"
EXPLANATION = "not implemented"
def run(ctx, rep, tier):
    raise AnalysisError("rules for C07 are not implemented yet")
