"""C09 Port/protocol names are pure spelling of their standard numbers (exhaustive over folded tables)."""

from __future__ import annotations

import ast
import json
import os
from typing import Any, Dict, List, Optional, Set, Tuple

from ..core import Ctx, Report, snippet, where
from ..fold import UNKNOWN, known
from ..intervals import IntSet, NotInterval, cond_to_intset
from ..model import AnalysisError, Func, own_nodes, src
from ..pathsem import feasible, function_paths, resolve_local
from .. import rx

from .c08 import items_to_ints_func  # noqa: E402
from .common import deep_resolve  # noqa: E402

PROPERTY = "C09"
LEVEL = "exploration"
EXPLANATION = (
    "Decides, by folding every port/protocol table from source and enumerating every (platform x version table x "
    "tcp/udp x name) and (platform x protocol name) row: standard numbers against an independent reference, "
    "render-name -> parse-name closure, same table for reading and writing, selection exhaustiveness, splitter "
    "vocabulary coverage, keyword collisions, number ranges, and that the names/numbers switches are read only by "
    "renderers. Does not decide that Ace(...).line shows names/numbers in the right places end to end."
)
ASSUMPTIONS = [
    "reference_names.json (hand-written from Cisco keyword tables and IANA numbers) is correct",
    "the constant folder evaluates the table expressions as CPython would (closed expression subset)",
]

_cov: Dict[str, Any] = {}


def extra_coverage(ctx: Ctx, rep: Report) -> Dict[str, Any]:
    return dict(_cov, exhaustive=True)


def _reference() -> Dict[str, Dict[str, int]]:
    p = os.path.join(os.path.dirname(os.path.dirname(os.path.abspath(__file__))), "reference_names.json")
    with open(p, "r", encoding="utf-8") as fh:
        d = json.load(fh)
    d.pop("_comment", None)
    return d


def _inline_pred(ctx: Ctx, fn: Func, call_src: str, symenv: Dict[str, Any]) -> Any:
    """Fold `self._is_tcp()`-style predicates: a method whose body is a single `return <expr>`."""
    name = call_src[len("self.") : -2]
    m = fn.cls.lookup_method(name) if fn.cls else None
    if m is None:
        return UNKNOWN
    body = [s for s in m.node.body if not (isinstance(s, ast.Expr) and isinstance(s.value, ast.Constant))]
    if len(body) != 1 or not isinstance(body[0], ast.Return) or body[0].value is None:
        return UNKNOWN
    return ctx.folder.fold(body[0].value, m.module, symenv)


def selection_table(ctx: Ctx, rep: Report) -> Dict[Tuple[str, str, int], Tuple[str, Dict[str, int]]]:
    """(protocol, platform, major) -> (table name, folded table) derived from PortName.names()."""
    from .normalise import normalised

    # a per-platform helper shared by the tcp and udp halves is written back into the selection it denotes
    fn = normalised(ctx, ctx.func("PortName.names"), "tailcalls,ifexp")
    cfg = ctx.cfg(fn)
    paths = [p for p in function_paths(cfg) if not p.raises]
    platforms = ctx.folder.const("helpers", "PLATFORMS")
    majors: Set[int] = set()
    pred_calls: Set[str] = set()
    for x in ast.walk(fn.node):
        if isinstance(x, ast.Compare) and "self.version.major" in (src(x.left), src(x.comparators[0])):
            for c in [x.left] + list(x.comparators):
                v = ctx.folder.fold(c, fn.module)
                if isinstance(v, int) and not isinstance(v, bool):
                    majors.add(v)
    for p in paths:
        for test, _ in p.atoms:
            for x in ast.walk(test):
                if isinstance(x, ast.Call) and isinstance(x.func, ast.Attribute) and src(x.func.value) == "self" and not x.args:
                    pred_calls.add(src(x))
    majors.add(15)  # the property names the IOS 15 tables: the version is asked for even when the code no longer compares it
    other = 0
    while other in majors:
        other += 1
    major_dom = sorted(majors) + [other]
    sel: Dict[Tuple[str, str, int], Tuple[str, Dict[str, int]]] = {}
    for proto in ("tcp", "udp"):
        for plat in platforms:
            for major in major_dom:
                symenv: Dict[str, Any] = {"self.protocol": proto, "self.platform": plat, "self.version.major": major}
                for pc in pred_calls:
                    symenv[pc] = _inline_pred(ctx, fn, pc, symenv)
                feas = []
                unfoldable = False
                for p in paths:
                    fz = feasible(p, ctx.folder, fn, symenv)
                    if fz is None:
                        unfoldable = True
                        break
                    if fz:
                        feas.append(p)
                combo = f"protocol={proto} platform={plat} version.major={'other' if major == other else major}"
                if unfoldable or len(feas) != 1:
                    # the selection is computed (a table of rows scanned in a loop, locals re-bound on the way): evaluate
                    # the body with the three settings fixed and look up which module table the result is
                    val = ctx.folder.eval_body(fn, symenv)
                    if not known(val):
                        raise AnalysisError(f"PortName.names: the selection for {combo} is neither a single path nor evaluable")
                    menv = ctx.folder.module_env(fn.module)
                    tname = next((k for k, v in sorted(menv.items()) if isinstance(v, dict) and v and v == val and k.isupper()), None)
                    if tname is None or not isinstance(val, dict) or not val:
                        rep.violation("PortName.names", f"selection for {combo} evaluates to {('a dict of %d names' % len(val)) if isinstance(val, dict) else repr(val)[:40]}", "no non-empty name table of the module is selected for this platform/protocol/version: names of this platform are neither parsed nor rendered", where(fn))
                        continue
                    sel[(proto, plat, major)] = (tname, val)
                    rep.ok(f"names() {combo}", f"evaluates to {tname} ({len(val)} names)", where=where(fn))
                    continue
                ret = resolve_local(feas[0].ret, feas[0].env)
                tname = _table_name(ret)
                if tname is not None and ctx.folder.try_const("port_name", tname) is UNKNOWN:
                    # the table travels through a local (`asa, ios_15, ... = (TCP_..., ...)`; `return asa.copy()`)
                    from .common import deep_resolve

                    ret = deep_resolve(feas[0].ret, feas[0].env)
                    tname = _table_name(ret)
                table = ctx.folder.try_const("port_name", tname) if tname else UNKNOWN
                if tname is None or not known(table) or not isinstance(table, dict) or not table:
                    rep.violation(
                        "PortName.names",
                        f"selection for {combo} returns {snippet(ret) if ret is not None else 'None'}",
                        "no non-empty name table is selected for this platform/protocol/version: names of this platform "
                        "are neither parsed nor rendered",
                        where(fn),
                    )
                    continue
                sel[(proto, plat, major)] = (tname, table)
                rep.ok(f"names() {combo}", f"selects {tname} ({len(table)} names)", where=where(fn))
    return sel


def _table_name(ret: Optional[ast.AST]) -> Optional[str]:
    if ret is None:
        return None
    if isinstance(ret, ast.Name):
        return ret.id
    if isinstance(ret, ast.Call):
        if isinstance(ret.func, ast.Attribute) and ret.func.attr == "copy" and isinstance(ret.func.value, ast.Name):
            return ret.func.value.id
        if isinstance(ret.func, ast.Name) and ret.func.id == "dict" and len(ret.args) == 1 and isinstance(ret.args[0], ast.Name):
            return ret.args[0].id
    if isinstance(ret, ast.Dict) and len(ret.keys) == 1 and ret.keys[0] is None and isinstance(ret.values[0], ast.Name):
        return ret.values[0].id
    return None


def _with_helpers(fn: Func) -> List[Func]:
    """fn and the private methods of its class it calls on self, transitively (a body moved into a helper counts)."""
    out: List[Func] = [fn]
    i = 0
    while i < len(out):
        g = out[i]
        i += 1
        for n in own_nodes(g.node):
            if isinstance(n, ast.Call) and isinstance(n.func, ast.Attribute) and src(n.func.value) == "self" and fn.cls is not None and n.func.attr.startswith("_"):
                m = fn.cls.lookup_method(n.func.attr)
                if m is not None and m not in out:
                    out.append(m)
    return out


def _const_names_used(ctx: Ctx, fn: Func) -> List[str]:
    out = []
    for n in [x for g in _with_helpers(fn) for x in own_nodes(g.node)]:
        if isinstance(n, ast.Name) and isinstance(n.ctx, ast.Load):
            r = ctx.prog.resolve_name(fn.module, n.id)
            if isinstance(r, tuple) and r[0] == "const" and n.id not in out:
                out.append(n.id)
    return out


def version_tables_per_platform(ctx: Ctx, rep: Report, sel=None, rid: str = "R09.17") -> None:
    """"On every platform, software version ...": where a platform's table depends on the software version, the tables it
    chooses between are its own - a table that one platform selects for SOME versions only while another platform
    selects it too is a version test that escaped the platform test it belongs under (NX-OS at major 15 reading the
    IOS 15 table loses the NX-OS-only names)."""
    if sel is None:
        sub_ = Report(rep.property_id)
        sub_.rule("R09.4")
        sel = selection_table(ctx, sub_)
    rep.rule(rid)
    by_plat: Dict[Tuple[str, str], Dict[int, str]] = {}
    # tables are compared by CONTENT (the same names and numbers under another constant name are the same table; two
    # platforms may legitimately have equal tables), and a shared table counts only between two platforms that BOTH
    # choose by version: a platform with one table for all versions that equals another platform's alternative is a
    # coincidence of the data, not a version test gone astray
    names_of: Dict[str, str] = {}
    for (proto, plat, major), (tname, _t) in sel.items():
        key = repr(sorted(_t.items())) if isinstance(_t, dict) else tname
        names_of.setdefault(key, tname)
        by_plat.setdefault((proto, plat), {})[major] = key
    n17 = 0
    for (proto, plat), per_major in sorted(by_plat.items()):
        n17 += 1
        rep.instance()
        tabs = set(per_major.values())
        bad17 = None
        if len(tabs) > 1:
            for (proto2, plat2), per2 in by_plat.items():
                if proto2 == proto and plat2 != plat and len(set(per2.values())) > 1:
                    shared = tabs & set(per2.values())
                    if shared:
                        bad17 = (plat2, names_of[sorted(shared)[0]], sorted(m for m, t in per_major.items() if t in shared))
        if bad17:
            rep.violation("PortName.names", f"protocol={proto} platform={plat}: {sorted(names_of[t] for t in tabs)}", f"platform {plat} selects {bad17[1]} for version major {bad17[2]} only, and platform {bad17[0]} selects that table too: the version test applies outside the platform it belongs to, so {plat} entries of that version are read and written with another platform's names", "cisco_acl/port_name.py", inp=f"Ace('permit {proto} any any eq <a name only {plat} knows>', platform='{plat}', version='{bad17[2][0]}')")
        else:
            rep.ok(f"names() protocol={proto} platform={plat}", f"{len(tabs)} table(s), none shared with another platform for part of the versions", nontrivial=False)
    if n17 == 0:
        rep.note(f"{rid} no selection derived (R09.4 reports that) - not judged")


def splitter_vocabulary(ctx: Ctx, rep: Report, rid: str = "R09.5", sel=None):
    """Every selectable port name is in the splitter's vocabulary, the destination port list ends only at a token
    that is neither a number nor a known name, and the grammar reads every known name as a source port.
    Returns (vocab_s, need) for the caller."""
    folder = ctx.folder
    if sel is None:
        sub_ = Report(rep.property_id)
        sub_.rule("R09.4")
        sel = selection_table(ctx, sub_)
    rep.rule(rid)
    akn = ctx.func("port_name.all_known_names")
    vocab = folder.fold_straight_function(akn)
    if not known(vocab) or not isinstance(vocab, (list, set, tuple)):
        raise AnalysisError("port_name.all_known_names is no longer a foldable straight-line function")
    vocab_s = set(vocab)
    rep.instance()
    need: Dict[str, str] = {}
    for (proto, plat, major), (tname, table) in sel.items():
        for name in table:
            need.setdefault(name, tname)
    missing = sorted(set(need) - vocab_s)
    for m in missing:
        rep.violation(
            "port_name.all_known_names",
            f"name {m!r} of {need[m]}",
            f"port name {m!r} (selectable table {need[m]}) is not in the splitter vocabulary: 'eq {m} log' splits as "
            f"dstport 'eq' + option '{m} log'",
            where(akn),
            inp=f"permit tcp any any eq {m}",
        )
    if not missing:
        rep.ok("all_known_names() ⊇ keys of every selectable table", f"{len(vocab_s)} names cover {len(need)} needed")
    sp = ctx.func("parsers._parse_dstport_option")
    uses = False
    for p in function_paths(ctx.cfg(sp), include_raise=False):
        for test, truth in p.atoms:
            for x in ast.walk(test):
                if isinstance(x, ast.Compare) and any(isinstance(o, ast.In) for o in x.ops):
                    rhs = resolve_local(x.comparators[0], p.env)
                    if isinstance(rhs, ast.Call):
                        r = ctx.prog.resolve_name(sp.module, rhs.func.id) if isinstance(rhs.func, ast.Name) else None
                        if r is akn:
                            uses = True
    if not uses:
        # the membership test may sit in a local predicate / lambda / comprehension (takewhile(is_port, words))
        from .common import single_env

        senv = single_env(sp.node)
        for x in ast.walk(sp.node):
            if isinstance(x, ast.Compare) and any(isinstance(o, ast.In) for o in x.ops):
                rhs = x.comparators[0]
                if isinstance(rhs, ast.Name) and rhs.id in senv:
                    rhs = senv[rhs.id]
                if isinstance(rhs, ast.Call) and isinstance(rhs.func, ast.Name) and ctx.prog.resolve_name(sp.module, rhs.func.id) is akn:
                    uses = True
    rep.instance()
    if uses:
        rep.ok("parsers._parse_dstport_option", "classifies tokens by membership in all_known_names()", where=where(sp))
    else:
        rep.violation("parsers._parse_dstport_option", "port/option classification", "the dstport/option splitter no longer tests tokens against all_known_names()", where(sp))

    # a token ends the destination port list only when it is neither a number nor a known name
    rep.instance()
    spcfg = ctx.cfg(sp)
    from .common import loop_body_paths as _lbp, deep_resolve as _dr

    def _is_member_test(t: ast.AST, env) -> bool:
        rt = _dr(t, env)
        return isinstance(rt, ast.Compare) and len(rt.ops) == 1 and isinstance(rt.ops[0], ast.In)

    judged = 0
    bad_path = None
    for lp in [n for n in spcfg.live if n.kind == "for"]:
        tvars = {x.id for x in ast.walk(lp.ast.target) if isinstance(x, ast.Name)}
        for path in _lbp(spcfg, lp):
            ends = any(nd.kind == "stmt" and isinstance(nd.ast, ast.Break) for nd, _ in path)
            if not ends:
                continue
            judged += 1
            atoms = [(nd.ast, lab == "T") for nd, lab in path if nd.kind == "cond" and lab in ("T", "F")]
            not_digit = any(isinstance(t, ast.Call) and isinstance(t.func, ast.Attribute) and t.func.attr == "isdigit" and not tr for t, tr in atoms)
            not_name = any(isinstance(t, ast.Compare) and len(t.ops) == 1 and isinstance(t.ops[0], ast.In) and not tr and any(isinstance(x, ast.Name) and (x.id in tvars or True) for x in ast.walk(t.left)) for t, tr in atoms)
            if not (not_digit and not_name):
                bad_path = (lp, atoms)
    preds = []
    for n in ast.walk(sp.node):
        if isinstance(n, ast.Call) and src(n.func).split(".")[-1] in ("takewhile", "dropwhile") and len(n.args) == 2:
            pr = n.args[0]
            body = None
            if isinstance(pr, ast.Lambda):
                body = pr.body
            elif isinstance(pr, ast.Name):
                h_ = next((x for x in ctx.prog.funcs if x.parent is sp and x.name == pr.id), None)
                if h_ is not None:
                    rets = [r for r in own_nodes(h_.node) if isinstance(r, ast.Return)]
                    body = rets[0].value if len(rets) == 1 else None
            preds.append((n, body))
    for n, body in preds:
        judged += 1
        ok_pred = isinstance(body, ast.BoolOp) and isinstance(body.op, ast.Or) and len(body.values) == 2 and any(isinstance(v, ast.Call) and isinstance(v.func, ast.Attribute) and v.func.attr == "isdigit" for v in body.values) and any(isinstance(v, ast.Compare) and len(v.ops) == 1 and isinstance(v.ops[0], ast.In) for v in body.values)
        if not ok_pred:
            bad_path = (n, [])
    if bad_path is not None:
        node_, atoms_ = bad_path
        at = "; ".join(f"{snippet(t, 30)}={'T' if tr else 'F'}" for t, tr in atoms_) or snippet(getattr(node_, "ast", node_), 60)
        rep.violation("parsers._parse_dstport_option", f"port list ended on [{at}]", "a token can end the destination port list although it was not found to be neither a number nor a known port name: a port name (e.g. 'login') is read as an option", where(sp), inp="permit tcp any any eq 80 login log")
    elif judged:
        rep.ok("parsers._parse_dstport_option: end of the port list", "reached only for a token that is neither a number nor a known name", where=where(sp))
    else:
        rep.note("R09.5 end-of-port-list rule: no token loop with an early exit and no takewhile predicate found (not judged)")

    # every known name is accepted where the grammar puts a source port (the source side is split by the regex alone)
    rep.instance()
    from .c01 import regex_pieces as _rp

    pe2 = ctx.func("parsers.parse_ace_extended")
    try:
        full, _pieces = _rp(ctx, pe2)
    except AnalysisError:
        full = None
    if full is not None:
        import re as _re2

        rejected = []
        for nm in sorted(vocab_s):
            m = _re2.match(full, f"permit tcp any eq {nm} any eq {nm}")
            if not m or f"eq {nm}" not in [str(g or "").strip() for g in m.groups()]:
                rejected.append(nm)
        if rejected:
            rep.violation("parsers.parse_ace_extended", f"source port names {rejected[:8]}{'...' if len(rejected) > 8 else ''}", f"the ACE grammar does not read these known port names as a source port ({len(rejected)} of {len(vocab_s)}): the line the renderer writes for them is refused", where(pe2), inp=f"permit tcp any eq {rejected[0]} any")
        else:
            rep.ok("parsers.parse_ace_extended: source port names", f"all {len(vocab_s)} known names are read as a source port", where=where(pe2))

    return vocab_s, need


def version_travels_with_platform(ctx: Ctx, rep: Report, rid: str = "R09.16") -> None:
    """Platform AND software version select the name tables: in the config-level / generator functions every
    construction of an object that renders names (a class whose constructor takes `version`) and is given `platform=`
    is given `version=` as well (or a spread that carries it).  `range_ports(dstports='135', platform='ios',
    version='15')` rendered `eq msrpc`, a name the version-15 reader refuses."""
    rep.rule(rid)
    base = ctx.prog.classes.get("Base")
    n = 0
    for g in [x for x in ctx.prog.funcs if x.cls is None and x.module.name.endswith("functions")]:
        kwname = g.node.args.kwarg.arg if g.node.args.kwarg else None
        env = {}
        for x in own_nodes(g.node):
            if isinstance(x, (ast.Assign, ast.AnnAssign)) and x.value is not None:
                t = x.targets[0] if isinstance(x, ast.Assign) else x.target
                if isinstance(t, ast.Name):
                    env.setdefault(t.id, x.value)
        for c in [x for x in own_nodes(g.node) if isinstance(x, ast.Call) and isinstance(x.func, ast.Name) and x.func.id in ctx.prog.classes]:
            cls = ctx.prog.classes[c.func.id]
            if base is None or base not in cls.mro:
                continue
            kws = {k.arg for k in c.keywords if k.arg}
            if "platform" not in kws:
                continue
            n += 1
            rep.instance()
            carried = "version" in kws
            for k in c.keywords:
                if k.arg is None and isinstance(k.value, ast.Name):
                    d = env.get(k.value.id)
                    if k.value.id == kwname:
                        carried = True
                    if isinstance(d, ast.Call) and src(d.func) == "dict" and any(kk.arg == "version" for kk in d.keywords):
                        carried = True
                    if isinstance(d, ast.Dict) and any(isinstance(kk, ast.Constant) and kk.value == "version" for kk in d.keys):
                        carried = True
            if carried:
                rep.ok(f"{g.qualname}: {snippet(c, 40)}", "platform and version are handed over together", nontrivial=False, where=where(g, c))
            else:
                rep.violation(g.qualname, snippet(c, 60), f"the {c.func.id} is built for the caller's platform but with the default software version: names are chosen from the table of another version than the one asked for, and the reader for that version refuses them (`eq msrpc` for ios 15)", where(g, c), inp="range_ports(dstports='135', platform='ios', version='15')")
        # a parameter record that is handed on to a helper (`params = {"line": ..., "platform": ..., ...}` ... `f(**params)`):
        # where it carries the platform it carries the version
        for d in [x for x in own_nodes(g.node) if isinstance(x, ast.Dict) or (isinstance(x, ast.Call) and isinstance(x.func, ast.Name) and x.func.id == "dict" and not x.args)]:
            keys = {k.value for k in d.keys if isinstance(k, ast.Constant)} if isinstance(d, ast.Dict) else {k.arg for k in d.keywords if k.arg}
            if "platform" not in keys:
                continue
            n += 1
            rep.instance()
            spread_own = kwname is not None and ((isinstance(d, ast.Dict) and any(k is None and src(v) == kwname for k, v in zip(d.keys, d.values))) or (isinstance(d, ast.Call) and any(k.arg is None and src(k.value) == kwname for k in d.keywords)))
            if "version" in keys or spread_own:
                rep.ok(f"{g.qualname}: {snippet(d, 40)}", "the record carries platform and version together", nontrivial=False, where=where(g, d))
            else:
                rep.violation(g.qualname, snippet(d, 60), "the parameter record carries the caller's platform but not the software version: what is built from it renders names from the default version's table, which the reader for the version asked for refuses (`eq msrpc` for ios 15)", where(g, d), inp="range_ports(dstports='135', platform='ios', version='15')")
    if n == 0:
        rep.note(f"{rid} no construction with platform= in the module functions - not judged")


def run(ctx: Ctx, rep: Report, tier: str) -> None:
    version_travels_with_platform(ctx, rep)  # noqa: C901
    ref = _reference()
    folder = ctx.folder
    platforms = folder.const("helpers", "PLATFORMS")

    # ---------------------------------------------------------------- R09.4 selection exhaustiveness
    rep.rule("R09.4")
    sel = selection_table(ctx, rep)
    rep.instance(rep.rule_counts["R09.4"]["obligations"])
    rep.floor(12, "platform x protocol x version selections")
    penv = folder.module_env(ctx.prog.module("port_name"))
    defined = {k for k, v in penv.items() if isinstance(v, dict) and "_NAME_PORT__" in k}
    selected = {t for t, _ in sel.values()}
    # identical tables under another name (UDP_NAME_PORT__NXOS = UDP_NAME_PORT__BASE) count as selected
    dead = [d for d in sorted(defined - selected) if not any(penv[d] == penv[s2] for s2 in selected)]
    for d in dead:
        if d.endswith("__BASE"):
            rep.note(f"R09.4 table {d} is defined but never selected by PortName.names() (dead data unless it only feeds other tables)")
        else:
            rep.instance()
            rep.violation("PortName.names", f"table {d}", f"the platform/version table {d} is never selected for any platform, protocol and version: its names are neither read nor written where they belong (a version or platform distinction was lost)", "cisco_acl/port_name.py", inp="PortName(protocol='tcp', platform='ios', version='16').names()")

    version_tables_per_platform(ctx, rep, sel)

    # ---------------------------------------------------------------- R09.1 standard numbers
    rep.rule("R09.1")
    rows = 0
    unverified: Set[str] = set()
    seen_rows: Set[Tuple[str, str, str]] = set()
    for (proto, plat, major), (tname, table) in sorted(sel.items()):
        for name, nr in table.items():
            rows += 1
            key = (tname, proto, name)
            if key in seen_rows:
                continue
            seen_rows.add(key)
            want = ref[proto].get(name)
            if want is None:
                unverified.add(f"{proto}:{name}")
                continue
            if want != nr:
                rep.violation(
                    f"port_name.{tname}",
                    f'"{name}": {nr}',
                    f"{proto} port name {name!r} denotes {nr} in table {tname} but its standard number is {want}",
                    "cisco_acl/port_name.py",
                    inp=f"permit {proto} any any eq {name}",
                )
            else:
                rep.ok(f"{tname}[{name!r}] == {nr}", "equals reference", nontrivial=True)
    rep.instance(rows)
    prot_tables = {k: v for k, v in folder.module_env(ctx.prog.module("protocol")).items() if isinstance(v, dict) and k.startswith("PROTOCOLS_")}
    rep.require(len(prot_tables) >= 3, "protocol tables PROTOCOLS_* vanished")
    prows = 0
    for tname, table in sorted(prot_tables.items()):
        for name, nr in table.items():
            prows += 1
            want = ref["ip_protocols"].get(name)
            if want is None:
                unverified.add(f"ip:{name}")
            elif want != nr:
                rep.violation(
                    f"protocol.{tname}",
                    f'"{name}": {nr}',
                    f"IP protocol name {name!r} denotes {nr} in {tname} but its standard number is {want}",
                    "cisco_acl/protocol.py",
                    inp=f"permit {name} any any",
                )
            else:
                rep.ok(f"{tname}[{name!r}] == {nr}", "equals reference")
    rep.instance(prows)
    rep.floor(200, "table rows")
    for u in sorted(unverified):
        rep.note(f"R09.1 UNVERIFIED-NAME {u} (not in the reference; not a violation)")

    # ---------------------------------------------------------------- R09.2 inversion closure
    rep.rule("R09.2")
    ports_fn = ctx.func("PortName.ports")
    cfgp = ctx.cfg(ports_fn)
    pp = [p for p in function_paths(cfgp) if not p.raises]
    rep.instance()
    okp = False
    swap_fn: Optional[Func] = None
    for p in pp:
        ret = resolve_local(p.ret, p.env)
        if isinstance(ret, ast.Call) and isinstance(ret.func, ast.Name) and len(ret.args) == 1:
            arg = resolve_local(ret.args[0], p.env)
            r = ctx.prog.resolve_name(ports_fn.module, ret.func.id)
            if isinstance(r, Func) and isinstance(arg, ast.Call) and src(arg.func) == "self.names":
                okp = True
                swap_fn = r
    if okp and swap_fn is not None:
        rep.ok("PortName.ports", f"returns {swap_fn.qualname}(self.names()): render map derives from the parse map", where=where(ports_fn))
        _check_inverse_pairing(ctx, rep, swap_fn)
    else:
        rep.violation(
            "PortName.ports",
            "return value",
            "the number->name map used for rendering is not derived from self.names() (the map the parser reads)",
            where(ports_fn),
        )
    # protocols: render table vs parse table
    setter = protocol_reader_writer(ctx, rep, prot_tables, platforms)

    # ---------------------------------------------------------------- R09.3 same table for reading and writing
    rep.rule("R09.3")
    pg = ctx.func("Port.line.getter")
    pi = items_to_ints_func(ctx)

    def portname_calls(fn: Func, _seen=None) -> List[ast.Call]:
        """PortName(...) constructions in fn or in the methods it calls on self (a shared helper counts)."""
        _seen = _seen if _seen is not None else set()
        if id(fn) in _seen:
            return []
        _seen.add(id(fn))
        out = []
        for n in own_nodes(fn.node):
            if isinstance(n, ast.Call) and isinstance(n.func, ast.Name):
                r = ctx.prog.resolve_name(fn.module, n.func.id)
                if r is ctx.cls("PortName"):
                    out.append(n)
            if isinstance(n, ast.Call) and isinstance(n.func, ast.Attribute) and src(n.func.value) == "self" and fn.cls is not None:
                m = fn.cls.lookup_method(n.func.attr)
                if m is not None:
                    out.extend(portname_calls(m, _seen))
            if isinstance(n, ast.Attribute) and src(n.value) == "self" and fn.cls is not None and isinstance(n.ctx, ast.Load):
                g2 = fn.cls.lookup_getter(n.attr)
                if g2 is not None:
                    out.extend(portname_calls(g2, _seen))
                else:
                    # a PortName kept in an attribute: the construction is where the attribute is assigned (whether it
                    # is refreshed when the settings change is R09.12)
                    for g3 in fn.cls.all_funcs():
                        for a in own_nodes(g3.node):
                            if isinstance(a, (ast.Assign, ast.AnnAssign)) and a.value is not None and any(isinstance(t, ast.Attribute) and src(t) == f"self.{n.attr}" for t in (a.targets if isinstance(a, ast.Assign) else [a.target])):
                                if id(g3) not in _seen and isinstance(a.value, ast.Call):
                                    if isinstance(a.value.func, ast.Name) and ctx.prog.resolve_name(g3.module, a.value.func.id) is ctx.cls("PortName"):
                                        out.append(a.value)
                                    elif isinstance(a.value.func, ast.Attribute) and src(a.value.func.value) == "self":
                                        m3 = fn.cls.lookup_method(a.value.func.attr)
                                        if m3 is not None:
                                            out.extend(portname_calls(m3, _seen))
        return out

    def self_reach(fn: Func, _seen=None) -> List[Func]:
        """fn and the methods of its class it calls on self, transitively (an extracted per-item helper counts)."""
        _seen = _seen if _seen is not None else {}
        if id(fn) in _seen:
            return []
        _seen[id(fn)] = fn
        for n in own_nodes(fn.node):
            if isinstance(n, ast.Call) and isinstance(n.func, ast.Attribute) and src(n.func.value) == "self" and fn.cls is not None:
                m = fn.cls.lookup_method(n.func.attr)
                if m is not None:
                    self_reach(m, _seen)
        return list(_seen.values())

    def kw(call: ast.Call) -> Dict[str, str]:
        pn_init = ctx.func("PortName.__init__")
        params = pn_init.params[1:]
        d = {k.arg: src(k.value) for k in call.keywords if k.arg}
        for i, a in enumerate(call.args):
            if i < len(params):
                d[params[i]] = src(a)
        return d

    gc, pc = portname_calls(pg), portname_calls(pi)
    rep.instance(len(gc) + len(pc))
    rep.floor(2, "PortName(...) constructions in Port.line getter and Port._line__items_to_ints")
    want_args = {"protocol": "self._protocol", "platform": "self._platform", "version": "self.version"}
    for fn, calls, meth in ((pg, gc, "ports"), (pi, pc, "names")):
        for c in calls:
            k = kw(c)
            bad = {a: k.get(a) for a, v in want_args.items() if k.get(a) != v}
            if bad:
                rep.violation(
                    fn.qualname,
                    snippet(c),
                    f"PortName is built without the object's own {sorted(bad)}: the table used here can differ from the "
                    "one the sibling (render/parse) side uses",
                    where(fn, c),
                )
            else:
                rep.ok(f"{fn.qualname}: {snippet(c)}", "protocol/platform/version of the Port itself", where=where(fn, c))
        used = set()
        for g3 in self_reach(fn):
            used |= {n.func.attr for n in own_nodes(g3.node) if isinstance(n, ast.Call) and isinstance(n.func, ast.Attribute) and n.func.attr in ("ports", "names") and (ctx.types.expr_type(n.func.value, g3)[:1] == ("cls",) or "port_name" in src(n.func.value).lower())}
        if meth not in used:
            rep.violation(fn.qualname, f"PortName.{meth}()", f"{fn.qualname} no longer reads PortName.{meth}()", where(fn))
        else:
            rep.ok(f"{fn.qualname} reads PortName.{meth}()", "reader/writer use the paired views")

    # a cached name table (or PortName object) must not outlive a change of protocol/platform/version
    from .c05 import memo_rules

    memo_rules(ctx, rep, rid="R09.3m", only_class="Port")
    memo_rules(ctx, rep, rid="R09.3m", only_class="PortName")
    memo_rules(ctx, rep, rid="R09.3m", only_class="Protocol")

    # ---------------------------------------------------------------- R09.5 splitter vocabulary
    vocab_s, need = splitter_vocabulary(ctx, rep, "R09.5", sel)

    # ---------------------------------------------------------------- R09.6 no collisions
    rep.rule("R09.6")
    operators = set(folder.const("helpers", "OPERATORS"))
    actions = set(folder.const("helpers", "ACTIONS"))
    logs = set(folder.const("option", "LOGS"))
    pe = ctx.func("parsers.parse_ace_extended")
    from .c01 import address_alternation

    addr = address_alternation(ctx, pe)
    if addr is None:
        raise AnalysisError("parsers.parse_ace_extended: the address alternation of the ACE grammar was not found")
    addr_kw = {w.strip() for w in rx.alternation_literals(addr)}
    addr_kw = {w for w in addr_kw if w and w[0].isalpha()}
    rep.require({"any", "host"} <= addr_kw, f"address keywords not recovered from the ACE grammar: {sorted(addr_kw)}")
    rep.instance(4)
    all_port_names = set(vocab_s) | set(need)
    for label, other in (("operator", operators), ("address keyword", addr_kw), ("log keyword", logs)):
        clash = sorted(all_port_names & other)
        if clash:
            for c in clash:
                rep.violation("port_name", f"name {c!r}", f"port name {c!r} collides with {label} {c!r}", "cisco_acl/port_name.py")
        else:
            rep.ok(f"port names ∩ {label}s", f"empty ({len(all_port_names)} x {len(other)})")
    digits = sorted(n for n in all_port_names if n.isdigit())
    for d in digits:
        rep.violation("port_name", f"name {d!r}", "an all-digit port name would be read as a number", "cisco_acl/port_name.py")
    pnames = set()
    for t in prot_tables.values():
        pnames |= set(t)
    clash = sorted(pnames & actions)
    for c in clash:
        rep.violation("protocol", f"name {c!r}", f"protocol name {c!r} collides with action keyword", "cisco_acl/protocol.py")
    if not clash and not digits:
        rep.ok("protocol names ∩ actions; all-digit names", "empty")

    # ---------------------------------------------------------------- R09.9 the table is the only judge of a name
    rep.rule("R09.9")
    _token_gates(ctx, rep, self_reach(pi), sorted(set(need)))

    renderer_falls_back(ctx, rep)
    grammar_reads_protocols(ctx, rep, prot_tables)
    tokens_are_the_words(ctx, rep)
    # R09.15 every number 1..65535 is accepted as an operand (C08 R08.8): the name chosen for 65535 is a number
    from .c08 import operand_range

    sub88 = Report("C09")
    operand_range(ctx, sub88)
    rep.absorb(sub88, "R09.15")
    # R09.11 a platform switch re-reads text rendered under the NEW platform's tables (C02 R02.8): text rendered before the
    # switch carries the old platform's names, which the new platform's table may not have
    from .c02 import render_after_switch

    sub28 = Report("C09")
    render_after_switch(ctx, sub28)
    rep.absorb(sub28, "R09.11")
    # R09.12 a name table (or PortName object) kept in an attribute is rebuilt by every operation that changes the
    # protocol, platform or version it was built for (C17 R17.6)
    from .c17 import derived_attributes_refreshed

    sub176 = Report("C09")
    derived_attributes_refreshed(ctx, sub176)
    rep.absorb(sub176, "R09.12")
    # ---------------------------------------------------------------- R09.7 switches are render-only
    rep.rule("R09.7")
    _r09_7(ctx, rep)

    # ---------------------------------------------------------------- R09.8 number ranges
    rep.rule("R09.8")
    iv = None
    for n in [x for g in _with_helpers(setter) for x in own_nodes(g.node)]:
        if isinstance(n, ast.If) and any(isinstance(s, ast.Raise) for s in n.body):
            try:
                bad = cond_to_intset(n.test, lambda x: isinstance(x, ast.Name) and x.id == "number", lambda x: folder.fold(x, setter.module))
            except NotInterval:
                continue
            iv = bad.complement()
    rep.instance()
    if iv is None:
        rep.violation("Protocol.line.setter", "numeric branch", "no range guard on the protocol number", where(setter))
    elif iv != IntSet([(0, 255)]):
        rep.violation("Protocol.line.setter", f"accepted protocol numbers {iv}", "the property names 256 protocols 0..255", where(setter))
    else:
        rep.ok("Protocol.line.setter accepts numbers", str(iv), where=where(setter))
    for tname, table in sorted(prot_tables.items()):
        bad_rows = {k: v for k, v in table.items() if not (isinstance(v, int) and 0 <= v <= 255)}
        rep.instance()
        if bad_rows:
            rep.violation(f"protocol.{tname}", str(bad_rows), "protocol number outside 0..255", "cisco_acl/protocol.py")
        else:
            rep.ok(f"values({tname}) ⊆ [0,255]", f"{len(table)} rows")
    for tname in sorted(defined):
        table = penv[tname]
        bad_rows = {k: v for k, v in table.items() if not (isinstance(v, int) and not isinstance(v, bool) and 1 <= v <= 65535)}
        rep.instance()
        if bad_rows:
            rep.violation(f"port_name.{tname}", str(bad_rows), "port number outside 1..65535", "cisco_acl/port_name.py")
        else:
            rep.ok(f"values({tname}) ⊆ [1,65535]", f"{len(table)} rows")

    _cov.update(
        port_rows=rows,
        protocol_rows=prows,
        selections=len(sel),
        vocabulary=len(vocab_s),
        tables=sorted(defined) + sorted(prot_tables),
        unverified_names=sorted(unverified),
    )


def protocol_reader_writer(ctx: Ctx, rep: Report, prot_tables=None, platforms=None) -> Func:
    """Every protocol name a platform's render table writes is read back to the same number by the table the reader
    uses, and every platform's name table is a sub-map of the reader's table.  Returns the reader (Protocol.line setter)."""
    folder = ctx.folder
    if platforms is None:
        platforms = folder.const("helpers", "PLATFORMS")
    if prot_tables is None:
        prot_tables = {k: v for k, v in folder.module_env(ctx.prog.module("protocol")).items() if isinstance(v, dict) and k.startswith("PROTOCOLS_")}
        rep.require(len(prot_tables) >= 3, "protocol tables PROTOCOLS_* vanished")
    getter = ctx.func("Protocol.line.getter")
    setter = ctx.func("Protocol.line.setter")
    namer = ctx.func("Protocol.name.getter")
    rtabs = [c for c in _const_names_used(ctx, getter) if isinstance(folder.try_const("protocol", c), dict)]
    ntabs = [c for c in _const_names_used(ctx, namer) if isinstance(folder.try_const("protocol", c), dict)]
    ptabs = [c for c in _const_names_used(ctx, setter) if isinstance(folder.try_const("protocol", c), dict)]
    rep.require(bool(rtabs) and bool(ptabs) and bool(ntabs), "Protocol.line getter/setter no longer read a module-level table")
    rep.instance()
    for rt in sorted(set(rtabs + ntabs)):
        R = folder.const("protocol", rt)
        for pt in ptabs:
            P = folder.const("protocol", pt)
            per_plat = R if set(R) >= set(platforms) else {p: R for p in platforms}
            for plat in platforms:
                table = per_plat.get(plat)
                if not isinstance(table, dict):
                    rep.violation("Protocol.line.getter", f"{rt}[{plat!r}]", f"no render table for platform {plat}", where(getter))
                    continue
                for nr, name in table.items():
                    if not isinstance(nr, int) or not isinstance(name, str):
                        rep.violation(f"protocol.{rt}", f"{plat}: {nr!r}: {name!r}", "render table is not number->name", "cisco_acl/protocol.py")
                        continue
                    back = P.get(name) if isinstance(P, dict) else None
                    if back != nr:
                        rep.violation(
                            f"protocol.{rt}",
                            f"{plat}: {nr} -> {name!r} -> {back!r} via {pt}",
                            f"protocol {nr} is rendered as {name!r} on {plat}, but the parser table {pt} reads {name!r} as {back!r}",
                            "cisco_acl/protocol.py",
                            inp=f'Protocol("{nr}", platform="{plat}").line re-parsed',
                        )
                    else:
                        rep.ok(f"{rt}[{plat}][{nr}]={name!r} -> {pt}[{name!r}]=={nr}", "closure holds")
    # every platform's name table is a sub-map of the parse table (a name accepted on one platform must not change number)
    for tname, table in sorted(prot_tables.items()):
        for pt in ptabs:
            P = folder.const("protocol", pt)
            if tname == pt:
                continue
            for name, nr in table.items():
                if P.get(name) != nr:
                    rep.violation(
                        f"protocol.{tname}",
                        f"{name!r}: {nr} vs {pt}[{name!r}]={P.get(name)!r}",
                        f"name {name!r} is {nr} in {tname} but the parser's table {pt} maps it to {P.get(name)!r}",
                        "cisco_acl/protocol.py",
                    )
                else:
                    rep.ok(f"{tname}[{name!r}] agrees with {pt}", "same number")

    return setter


def grammar_reads_protocols(ctx: Ctx, rep: Report, prot_tables=None, rid: str = "R09.13") -> None:
    """What `Protocol.line` writes, the ACE grammar reads: every protocol name of every table (and every number 0..255)
    is matched as the protocol field of an extended entry (a field pattern of letters-or-digits refuses `icmp6`, `ipv6`)."""
    import re as _re2

    from .c01 import regex_pieces as _rp

    rep.rule(rid)
    if prot_tables is None:
        prot_tables = {k: v for k, v in ctx.folder.module_env(ctx.prog.module("protocol")).items() if isinstance(v, dict) and k.startswith("PROTOCOLS_")}
    pe2 = ctx.func("parsers.parse_ace_extended")
    rep.instance()
    try:
        full, _pieces = _rp(ctx, pe2)
        pat = _re2.compile(full)
    except (AnalysisError, _re2.error):
        rep.note(f"{rid} the pattern of parse_ace_extended could not be assembled (not judged; R01.1 reports it)")
        return
    names = sorted({nm for t in prot_tables.values() for nm in t})
    tokens = names + ["0", "1", "6", "17", "58", "200", "255"]
    rejected = []
    for tok in tokens:
        m = pat.match(f"permit {tok} any any")
        if not m or tok not in [str(g or "").strip() for g in m.groups()]:
            rejected.append(tok)
    if rejected:
        rep.violation("parsers.parse_ace_extended", f"protocol tokens {rejected[:8]}{'...' if len(rejected) > 8 else ''}", f"the ACE grammar does not read these protocol names / numbers as the protocol field ({len(rejected)} of {len(tokens)}): the line the renderer writes for them is refused", where(pe2), inp=f"Ace('permit {rejected[0]} any any')")
    else:
        rep.ok("parsers.parse_ace_extended: protocol field", f"all {len(names)} protocol names of the tables and the sample numbers are read as the protocol", where=where(pe2))


def tokens_are_the_words(ctx: Ctx, rep: Report, rid: str = "R09.14") -> None:
    """The port reader looks up the words of the text as they were written: between the parameter and the `.split()` that
    makes the tokens the text passes through the package's normaliser only (no `.replace`, no substitution) - a rewrite
    of '-' or '_' tears hyphenated names (`ftp-data`) apart, but only on the path that has it."""
    rep.rule(rid)
    f = ctx.func("Port.line.setter")
    param = f.params[1]
    splits = [x for x in own_nodes(f.node) if isinstance(x, ast.Call) and isinstance(x.func, ast.Attribute) and x.func.attr == "split" and isinstance(x.func.value, ast.Name)]
    rep.instance()
    # `h.init_line(line).split()`: the package's normaliser applied to the parameter, split at once - nothing in between
    chained = [x for x in own_nodes(f.node) if isinstance(x, ast.Call) and isinstance(x.func, ast.Attribute) and x.func.attr == "split" and isinstance(x.func.value, ast.Call) and isinstance(x.func.value.func, (ast.Attribute, ast.Name)) and (x.func.value.func.attr if isinstance(x.func.value.func, ast.Attribute) else x.func.value.func.id).startswith("init_") and all(isinstance(a, ast.Name) and a.id == param for a in x.func.value.args)]
    if not splits and chained:
        rep.ok("Port.line setter: tokens", "the normalised text split at blanks, nothing rewritten", where=where(f, chained[0]))
        return
    if not splits:
        rep.note(f"{rid} no `<text>.split()` found in Port.line setter (tokens made elsewhere?) - not judged")
        return
    bad = None
    for sp_ in splits:
        var = sp_.func.value.id
        for n in own_nodes(f.node):
            if isinstance(n, (ast.Assign, ast.AnnAssign, ast.AugAssign)) and n.value is not None:
                t = n.targets[0] if isinstance(n, ast.Assign) else n.target
                if isinstance(t, ast.Name) and t.id == var:
                    v = n.value
                    ok = False
                    if isinstance(v, ast.Call) and isinstance(v.func, (ast.Attribute, ast.Name)):
                        nm = v.func.attr if isinstance(v.func, ast.Attribute) else v.func.id
                        if nm.startswith("init_") or nm in ("replace_spaces", "strip", "lstrip", "rstrip", "str"):
                            ok = all(isinstance(a, ast.Name) and a.id in (var, param) for a in v.args) and (not isinstance(v.func, ast.Attribute) or nm.startswith("init_") or nm == "replace_spaces" or src(v.func.value) in (var, param))
                    if isinstance(v, ast.Name) and v.id in (var, param):
                        ok = True
                    if not ok:
                        bad = bad or n
    if bad is not None:
        rep.violation("Port.line.setter", snippet(bad, 60), "the text is rewritten before it is split into tokens: a token the writer renders (a hyphenated port name after `range`) no longer reaches the name table as it was written", where(f, bad), inp="Port('range 20 21', protocol='tcp').line == 'range ftp-data ftp' is refused")
    else:
        rep.ok("Port.line setter: tokens", "the normalised text split at blanks, nothing rewritten", where=where(f, splits[0]))


def renderer_falls_back(ctx: Ctx, rep: Report, rid: str = "R09.10") -> None:
    """What the protocol renderer returns is never empty: a path that returns the looked-up name has tested that the
    lookup found one; every other path returns the number (an empty protocol field is read back as ip, number 0)."""
    from .normalise import normalised

    rep.rule(rid)
    g0 = ctx.func("Protocol.line.getter")
    g = normalised(ctx, g0, "ifexp")
    cfg = ctx.cfg(g)
    n = 0
    for p in function_paths(cfg):
        if p.raises or p.ret is None:
            continue
        n += 1
        rep.instance()
        r = p.ret
        while isinstance(r, ast.Call) and isinstance(r.func, ast.Name) and r.func.id == "str" and len(r.args) == 1:
            r = r.args[0]
        full = deep_resolve(r, p.env) or r

        def numeric(e: ast.AST) -> bool:
            t = src(deep_resolve(e, p.env) or e)
            return "_number" in t and "NR_TO" not in t and ".get(" not in t and "[" not in t

        if numeric(r):
            rep.ok(f"Protocol.line getter: return {snippet(p.ret, 30)}", "the number", where=where(g0))
            continue
        if isinstance(r, ast.BoolOp) and isinstance(r.op, ast.Or) and numeric(r.values[-1]):
            rep.ok(f"Protocol.line getter: return {snippet(p.ret, 30)}", "the name, or the number when there is none", where=where(g0))
            continue
        if isinstance(full, ast.Constant) and isinstance(full.value, str) and full.value:
            rep.ok(f"Protocol.line getter: return {snippet(p.ret, 30)}", "a non-empty constant", where=where(g0))
            continue
        guarded = False
        for test, truth in p.atoms:
            t = test
            names = set()
            if isinstance(t, ast.NamedExpr) and isinstance(t.target, ast.Name):
                names.add(t.target.id)
            if isinstance(t, ast.Name):
                names.add(t.id)
            if truth and ((isinstance(r, ast.Name) and r.id in names) or src(t) == src(r) or src(deep_resolve(t, p.env) or t) == src(full)):
                guarded = True
            if not truth and isinstance(t, ast.UnaryOp) and isinstance(t.op, ast.Not) and ((isinstance(r, ast.Name) and src(t.operand) == r.id) or src(t.operand) == src(r)):
                guarded = True
        if guarded:
            rep.ok(f"Protocol.line getter: return {snippet(p.ret, 30)}", "the looked-up name, tested non-empty on this path", where=where(g0))
        else:
            held = "; ".join(f"{snippet(t_, 30)}{'' if tr_ else ' (false)'}" for t_, tr_ in p.atoms)
            rep.violation("Protocol.line.getter", f"return {snippet(p.ret, 40)} under [{held}]", "the looked-up name is returned without a test that the lookup found one: for a number that has no name on this platform the protocol field is rendered empty and read back as ip", where(g0), inp="Protocol('tcp', has_port=True); p.number = 200; p.line == ''")
    rep.floor(2, "paths of Protocol.line getter") if n else None


def _token_gates(ctx: Ctx, rep: Report, funcs: List[Func], names: List[str]) -> None:
    """A token that is not a number is accepted exactly when the name table has it: any other test of the token in the
    reader must let every name of the tables through (it is evaluated here on each of them), otherwise a name the
    writer renders is refused by the reader."""
    from ..fold import known

    n_lookup = 0
    for g in funcs:
        cfg = ctx.cfg(g)
        tables: Set[str] = set()
        for n in own_nodes(g.node):
            if isinstance(n, (ast.Assign, ast.AnnAssign, ast.NamedExpr)):
                v = n.value
                t = n.targets[0] if isinstance(n, ast.Assign) else n.target
                if isinstance(t, ast.Name) and v is not None and any(isinstance(x, ast.Call) and isinstance(x.func, ast.Attribute) and x.func.attr == "names" for x in ast.walk(v)):
                    tables.add(t.id)
        toks: Dict[str, List[ast.AST]] = {}
        for n in own_nodes(g.node):
            tok = None
            if isinstance(n, ast.Call) and isinstance(n.func, ast.Attribute) and n.func.attr == "get" and n.args and isinstance(n.args[0], ast.Name) and (src(n.func.value) in tables or ".names()" in src(n.func.value)):
                tok = n.args[0].id
            elif isinstance(n, ast.Subscript) and isinstance(n.slice, ast.Name) and (src(n.value) in tables or ".names()" in src(n.value)):
                tok = n.slice.id
            elif isinstance(n, ast.Compare) and len(n.ops) == 1 and isinstance(n.ops[0], (ast.In, ast.NotIn)) and isinstance(n.left, ast.Name) and (src(n.comparators[0]) in tables or ".names()" in src(n.comparators[0])):
                tok = n.left.id
            if tok:
                toks.setdefault(tok, []).append(n)
        for tok, lookups in sorted(toks.items()):
            n_lookup += 1
            look_nodes = [cfg.node_containing(x) for x in lookups]
            look_nodes = [x for x in look_nodes if x is not None]
            # the table that is asked is the name table on every path: no other binding of the table variable (an
            # empty dict kept "when no name is expected") reaches the lookup
            for tv in sorted(tables):
                def_nodes = [m for m in cfg.live if m.kind in ("stmt", "cond") and m.ast is not None and any(isinstance(y, ast.Name) and y.id == tv and isinstance(y.ctx, ast.Store) for y in ast.walk(m.ast))]
                for dn in def_nodes:
                    if any(isinstance(x, ast.Call) and isinstance(x.func, ast.Attribute) and x.func.attr == "names" for x in ast.walk(dn.ast)):
                        continue
                    others = [m for m in def_nodes if m is not dn]
                    reach = cfg.reachable(dn, avoid=lambda m, others=others: m in others, labels_avoid=("exc",))
                    hit = [ln for ln in look_nodes if ln in reach and any(isinstance(y, ast.Name) and y.id == tv for y in ast.walk(ln.ast))]
                    if hit:
                        rep.instance()
                        rep.violation(g.qualname, f"{snippet(dn.ast, 40)} ... {snippet(hit[0].ast, 40)}", f"on some path the token is looked up in `{tv}` as bound here, not in the name table: a name that follows a number (the order the writer produces: `eq 22 telnet`) is refused", where(g, dn.ast), inp="Port('eq 22 telnet', protocol='tcp')")
            for c in cfg.live:
                if c.kind != "cond" or c.ast is None:
                    continue
                t = c.ast
                if not any(isinstance(x, ast.Name) and x.id == tok for x in ast.walk(t)):
                    continue
                if any(isinstance(x, ast.Name) and x.id in tables for x in ast.walk(t)) or ".names()" in src(t) or c in look_nodes:
                    continue  # the lookup itself
                if src(t) == f"{tok}.isdigit()":
                    continue  # the number branch
                # the test must be reached before the lookup to matter
                if not any(ln in cfg.reachable(c, labels_avoid=("exc",)) for ln in look_nodes):
                    continue
                rep.instance()
                refused = []
                unknown = False
                for nm in names:
                    v = ctx.folder.fold(t, g.module, {tok: nm})
                    if not known(v):
                        unknown = True
                        break
                    lab = "T" if v else "F"
                    succ = c.succs(lab)
                    if not any(ln is s_ or ln in cfg.reachable(s_, labels_avoid=("exc",)) for s_ in succ for ln in look_nodes):
                        refused.append(nm)
                if unknown:
                    rep.violation(g.qualname, snippet(t), f"a test of the token `{tok}` other than the table lookup stands before the lookup and cannot be evaluated on the table's names: nothing shows that every name the writer renders gets through", where(g, t))
                elif refused:
                    rep.violation(g.qualname, snippet(t), f"this test keeps {len(refused)} names of the tables from the lookup ({refused[:6]}...): the writer renders them, the reader refuses them", where(g, t), inp=f"Port('eq {refused[0]}', protocol='tcp')")
                else:
                    rep.ok(f"{g.qualname}: {snippet(t, 50)}", f"lets all {len(names)} table names through to the lookup", where=where(g, t))
    rep.instance()
    if n_lookup == 0:
        rep.violation("Port", "name lookup", "no lookup of a token in PortName.names() was found in the port reader", where(funcs[0]) if funcs else "cisco_acl/port.py")
    else:
        rep.ok("port reader: name lookups", f"{n_lookup} token lookups; no test other than isdigit() and the table decides about a name", nontrivial=False)


def _check_inverse_pairing(ctx: Ctx, rep: Report, swap_fn: Func) -> None:
    """The inverse map must store (value, key) pairs of `.items()` of its argument."""
    param = swap_fn.params[0] if swap_fn.params else None
    ok = False
    for n in own_nodes(swap_fn.node):
        if isinstance(n, ast.For) and _iterates_items_of(n.iter, param):
            if isinstance(n.target, ast.Tuple) and len(n.target.elts) == 2:
                k, v = (src(e) for e in n.target.elts)
                for st in ast.walk(n):
                    if isinstance(st, ast.Assign) and isinstance(st.targets[0], ast.Subscript):
                        if src(st.targets[0].slice) == v and src(st.value) == k:
                            ok = True
                    if isinstance(st, ast.Call) and isinstance(st.func, ast.Attribute) and st.func.attr == "setdefault" and len(st.args) == 2 and [src(a) for a in st.args] == [v, k]:
                        ok = True  # data.setdefault(number, name)
        if isinstance(n, ast.DictComp) and len(n.generators) == 1:
            g = n.generators[0]
            if _iterates_items_of(g.iter, param) and isinstance(g.target, ast.Tuple) and len(g.target.elts) == 2:
                k, v = (src(e) for e in g.target.elts)
                if src(n.key) == v and src(n.value) == k:
                    ok = True
    rep.instance()
    if ok:
        rep.ok(swap_fn.qualname, "stores data[number] = name for (name, number) in table.items(): every rendered name is a key of the same table with that number", where=where(swap_fn))
    else:
        rep.violation(swap_fn.qualname, "inverse map construction", "the number->name map is not built from (name, number) pairs of the table", where(swap_fn))


def _iterates_items_of(it: ast.AST, param) -> bool:
    """`param.items()` possibly wrapped in order-only adaptors (list, reversed, sorted, tuple)."""
    while isinstance(it, ast.Call) and isinstance(it.func, ast.Name) and it.func.id in ("list", "reversed", "sorted", "tuple") and len(it.args) == 1:
        it = it.args[0]
    return (
        isinstance(it, ast.Call)
        and isinstance(it.func, ast.Attribute)
        and it.func.attr == "items"
        and isinstance(it.func.value, ast.Name)
        and it.func.value.id == param
    )


SWITCH_ATTRS = {"_port_nr": "port_nr", "_protocol_nr": "protocol_nr", "_has_port": "has_port"}


def _r09_7(ctx: Ctx, rep: Report) -> None:
    switches = set(SWITCH_ATTRS) | set(SWITCH_ATTRS.values())
    reads = 0
    for f in ctx.prog.funcs:
        if f.cls is None and f.module.short not in ("functions",):
            pass
        for n in own_nodes(f.node):
            if not (isinstance(n, ast.Attribute) and n.attr in switches and isinstance(n.ctx, ast.Load)):
                continue
            # only attributes of package objects
            bt = ctx.types.expr_type(n.value, f)
            if bt[0] not in ("cls", "union", "any"):
                continue
            reads += 1
            pub = SWITCH_ATTRS.get(n.attr, n.attr)
            par = getattr(n, "_parent", None)
            allowed = None
            if f.kind == "getter" and f.name in ("line", pub):
                allowed = "renderer / own accessor"
            elif f.name in ("data", "__repr__", "_repr__params", "_repr__add_param", "__init__"):
                allowed = f.name
            elif isinstance(par, ast.keyword) and par.arg == pub:
                allowed = f"forwarded as keyword {pub}="
            elif isinstance(par, ast.Assign) and isinstance(par.targets[0], ast.Subscript) and isinstance(par.targets[0].slice, ast.Constant) and par.targets[0].slice.value == pub:
                allowed = f"stored under key {pub!r}"
            elif isinstance(par, ast.Dict):
                allowed = "dict display value"
            if allowed is None:
                # any use that can influence control flow or a stored non-switch value
                rep.violation(
                    f.qualname,
                    snippet(par if par is not None else n),
                    f"switch {pub} is read outside renderers/exporters: the names/numbers switches must change text only",
                    where(f, n),
                )
            else:
                rep.ok(f"{f.qualname}: {snippet(n)}", allowed, nontrivial=False, where=where(f, n))
    rep.instance(reads)
    rep.floor(10, "reads of the names/numbers switches")


# what the later rounds (seeding rounds 2-5, refactor twins, defect hunt) added to what the check decides
LATER_ROUNDS = "platform and version travel together into every object the generator functions build, every rendered protocol and port name is in the reader's grammar, the token tables are the words they stand for, parameter records that carry the platform carry the version, a version table belongs to one platform"
EXPLANATION = EXPLANATION.replace(" Does not decide", " Later rounds added: " + LATER_ROUNDS + ". Does not decide", 1) if " Does not decide" in EXPLANATION else EXPLANATION + " Later rounds added: " + LATER_ROUNDS + "."
