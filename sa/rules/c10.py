"""C10 Resequencing — guard structure of the wrapper, 'changes nothing else', traversal order."""

from __future__ import annotations

import ast
from typing import Dict, List, Optional, Set, Tuple

from ..cfg import Node
from ..core import Ctx, Report, snippet, where
from ..fold import known
from ..intervals import NEG, POS, IntSet, NotInterval, cond_to_intset
from ..model import Func, own_nodes, src
from ..pathsem import function_paths, resolve_local
from .common import chain, deep_resolve, loop_body_paths, mentions, reachable_without_edges

PROPERTY = "C10"
LEVEL = "other"
EXPLANATION = (
    "Decides that every resequence method runs under the range-checking wrapper, that the wrapper's three guards accept "
    "exactly start in 0..4294967295, step >= 1 when start > 0 (step forced to 0 when start is 0) and a result <= "
    "4294967295 before anything is returned, that resequencing writes nothing but sequence numbers, and that items are "
    "numbered in list order, descending into a group before numbering the group, with the increment skipped after the "
    "last item. Does not decide that the numbers are exactly s, s+d, s+2d, ... (arithmetic over values)."
)
ASSUMPTIONS = ["functools.wraps does not alter the call protocol of the wrapper"]

DECORATOR = "check_start_step_sequence"
SEQ_MAX = 4294967295


def run(ctx: Ctx, rep: Report, tier: str) -> None:  # noqa: C901
    folder = ctx.folder
    # ---------------------------------------------------------------- R10.1
    rep.rule("R10.1")
    reseq = [f for f in ctx.prog.funcs if f.name == "resequence" and f.cls is not None]
    rep.instance(len(reseq))
    rep.floor(2, "resequence methods")
    for f in reseq:
        if DECORATOR in f.decorators:
            rep.ok(f.qualname, f"decorated with @{DECORATOR}", where=where(f))
        else:
            rep.violation(f.qualname, "decorators: " + (", ".join(f.decorators) or "none"), "resequence runs without the start/step/result range checks", where(f), inp=f"{f.cls.name}(...).resequence(start=4294967296)")
        sig = f.params
        if sig[:3] != [sig[0], "start", "step"] or f.node.args.kwarg is None:
            rep.violation(f.qualname, f"signature {sig}", "the wrapper passes (obj, start, step, **kwargs) positionally", where(f))
    dec = ctx.func(f"helpers.{DECORATOR}")
    wrappers = [g for g in ctx.prog.funcs if g.parent is dec]
    rep.require(len(wrappers) == 1, "the decorator no longer defines exactly one wrapper")
    from .normalise import normalised

    w = normalised(ctx, wrappers[0], "multiret")  # the argument checks may live in a helper that returns the step to use
    wcfg = ctx.cfg(w)
    method_param = dec.params[0]
    call_nodes = [n for n in wcfg.live if n.ast is not None and any(isinstance(x, ast.Call) and isinstance(x.func, ast.Name) and x.func.id == method_param for x in ast.walk(n.ast))]
    rep.require(bool(call_nodes), "the wrapper no longer calls the wrapped method")
    cn = call_nodes[0]
    call = [x for x in ast.walk(cn.ast) if isinstance(x, ast.Call) and isinstance(x.func, ast.Name) and x.func.id == method_param][0]
    rep.instance()
    pos = [src(a) for a in call.args]
    wp = w.params
    if pos != wp[:3] or not any(k.arg is None for k in call.keywords):
        rep.violation(w.qualname, snippet(call), f"the wrapped method must receive ({', '.join(wp[:3])}, **kwargs) unchanged and in this order", where(w, call))
    else:
        rep.ok(f"{w.qualname}: {snippet(call)}", "object, start, step, **kwargs forwarded in signature order", where=where(w, call))

    # ---------------------------------------------------------------- R10.2
    rep.rule("R10.2")
    start, step = wp[1], wp[2]
    fold = lambda env: (lambda x: folder.fold(x, w.module, env))  # noqa: E731

    # accepted start: complement of the union of raise conditions that mention only `start`, on paths reaching the call
    paths_to_call = [p for p in function_paths(wcfg) if any(n is cn for n, _ in p.nodes)]
    rep.require(bool(paths_to_call), "no path reaches the wrapped call")
    guards = [n for n in own_nodes(w.node) if isinstance(n, ast.If) and any(isinstance(s, ast.Raise) for s in n.body)]
    pre_guards = [g for g in guards if wcfg.node_of(g.body[0]) is not None and _before(wcfg, g, cn)]
    post_guards = [g for g in guards if g not in pre_guards]
    def holds(test: ast.AST, truth: bool, var: str, env) -> Optional[IntSet]:
        """Values of `var` for which the atom has this truth value (None when the atom is not about var / not an interval)."""
        if var not in {x.id for x in ast.walk(test) if isinstance(x, ast.Name)}:
            return None
        try:
            st_ = cond_to_intset(test, lambda x: isinstance(x, ast.Name) and x.id == var, fold(env))
        except NotInterval:
            return None
        return st_ if truth else st_.complement()

    def accepted(var: str, env, other: str) -> IntSet:
        """Union over the paths that reach the wrapped call (feasible under env) of the values of var they admit."""
        acc = IntSet.empty()
        for p_ in paths_to_call:
            cur = IntSet.all()
            feasible_ = True
            for t_, tr_ in p_.atoms:
                names_ = {x.id for x in ast.walk(t_) if isinstance(x, ast.Name)}
                if var in names_ and (other not in names_ or other in env):
                    h_ = holds(t_, tr_, var, env)
                    if h_ is not None:
                        cur = cur.intersect(h_)
                elif other in names_ and other in env and var not in names_:
                    v_ = folder.fold(t_, w.module, env)
                    if known(v_) and bool(v_) != tr_:
                        feasible_ = False
                        break
            if feasible_:
                acc = acc.union(cur)
        return acc

    acc_start = accepted(start, {}, step)
    rep.instance()
    want = IntSet([(0, SEQ_MAX)])
    if acc_start == want:
        rep.ok(f"{w.qualname}: accepted start", str(acc_start), where=where(w))
    else:
        rep.violation(w.qualname, f"accepted start {acc_start}", f"the property names start in {want}", where(w), inp="resequence(start=4294967296) / resequence(start=-1)")
    # accepted step when start > 0, and when start == 0
    for sval, label in ((1, "start > 0"), (0, "start == 0")):
        acc = accepted(step, {start: sval}, start)
        rep.instance()
        if sval == 1:
            if acc == IntSet([(1, POS)]):
                rep.ok(f"{w.qualname}: accepted step when {label}", str(acc), where=where(w))
            else:
                rep.violation(w.qualname, f"accepted step when {label}: {acc}", "a step below 1 with a positive start must raise", where(w), inp="resequence(start=10, step=0)")
        else:
            if acc == IntSet.all():
                rep.ok(f"{w.qualname}: step when {label}", "unconstrained (it is overwritten)", nontrivial=False, where=where(w))
            else:
                rep.violation(w.qualname, f"accepted step when {label}: {acc}", "start 0 removes all numbers whatever the step", where(w), inp="resequence(start=0, step=0)")
    # start == 0 forces step = 0
    rep.instance()
    forced = None
    for p in paths_to_call:
        feas0 = True
        for t, truth in p.atoms:
            names_ = {x.id for x in ast.walk(t) if isinstance(x, ast.Name)}
            if names_ == {start}:
                v_ = folder.fold(t, w.module, {start: 0})
                if known(v_) and bool(v_) != truth:
                    feas0 = False
        if not feas0:
            continue
        # the value the wrapped call receives for step on this path
        v = deep_resolve(ast.Name(id=src(call.args[2]) if len(call.args) > 2 else step, ctx=ast.Load()), p.env)
        if isinstance(v, ast.Constant) and v.value == 0:
            forced = True if forced is None else forced
        else:
            forced = False
    if forced:
        rep.ok(f"{w.qualname}: start == 0", "step is forced to 0 before the call", where=where(w))
    else:
        rep.violation(w.qualname, "start == 0", "step is not forced to 0 when start is 0: numbers would not all be removed", where(w), inp="resequence(start=0, step=10)")
    # result guard and returned value
    rep.instance()
    res_name = None
    if isinstance(cn.ast, ast.Assign) and isinstance(cn.ast.targets[0], ast.Name):
        res_name = cn.ast.targets[0].id
    acc_res = IntSet.all()
    for g in post_guards:
        try:
            bad = cond_to_intset(g.test, lambda x: isinstance(x, ast.Name) and x.id == res_name, fold({}))
        except NotInterval:
            continue
        acc_res = acc_res.intersect(bad.complement())
    if acc_res == IntSet([(NEG, SEQ_MAX)]):
        rep.ok(f"{w.qualname}: accepted result", str(acc_res), where=where(w))
    else:
        rep.violation(w.qualname, f"accepted result {acc_res}", "a last number above 4294967295 must raise", where(w), inp="Acl(2 items).resequence(start=4294967295, step=1)")
    rep.instance()
    rets = [n for n in wcfg.live if n.kind == "stmt" and isinstance(n.ast, ast.Return)]
    bad_ret = [r for r in rets if r.ast.value is None or src(r.ast.value) != res_name]
    if bad_ret or not rets:
        rep.violation(w.qualname, snippet(bad_ret[0].ast) if bad_ret else "no return", "the wrapper does not return the wrapped method's result", where(w))
    else:
        # every return is dominated by the result guard's passing edge
        okdom = True
        for g in post_guards:
            gn = [c for c in wcfg.live if c.kind == "cond" and any(c.ast is x for x in ast.walk(g.test))]
            for c in gn:
                pass
        for r in rets:
            if not all(any(n.kind == "cond" and res_name in {x.id for x in ast.walk(n.ast) if isinstance(x, ast.Name)} for n, _ in p.nodes) for p in function_paths(wcfg) if p.end is wcfg.exit):
                okdom = False
        if okdom:
            rep.ok(f"{w.qualname}: return {res_name}", "the result; every normal path tests it against the maximum", where=where(w))
        else:
            rep.violation(w.qualname, f"return {res_name}", "a normal path returns without the result check", where(w))

    # ---------------------------------------------------------------- R10.3
    rep.rule("R10.3")
    for f in reseq:
        rep.instance()
        s = ctx.effects.summary(f)
        attrs = {(a, k) for (r, a, k) in s.writes if r in ("self", "kwargs")}
        extra = sorted(x for x in attrs if x[0] not in ("_sequence",))
        if extra:
            sites = []
            for wkey, lst in s.sites.items():
                if wkey[1] != "_sequence" and wkey[0] in ("self", "kwargs"):
                    sites.extend(lst)
            rep.violation(f.qualname, f"writes {extra}", f"resequencing must change nothing but sequence numbers; written at {sites[:2]}", where(f))
        elif ("_sequence", "store") not in attrs:
            rep.violation(f.qualname, "writes nothing", "resequence does not store any sequence number", where(f))
        else:
            rep.ok(f"{f.qualname}: transitive write-set", "{_sequence}", where=where(f))

    # ---------------------------------------------------------------- R10.4
    rep.rule("R10.4")
    for f in reseq:
        _traversal(ctx, rep, f)

    rendered_numbers(ctx, rep)
    nested_list_not_defaulted(ctx, rep)
    # R10.7 the range checks of the wrapper are made on every call: no counter or flag outside the objects (module level,
    # closure of the decorator) decides whether they run (C17 R17.2)
    from .c17 import r17_2

    sub17 = Report("C10")
    r17_2(ctx, sub17)
    rep.absorb(sub17, "R10.7")
    # ---------------------------------------------------------------- R10.5 the number written is the number stored
    rep.rule("R10.5")
    setters = []
    for f in reseq:
        for e in ctx.cg.all_edges(f):
            if e.kind == "setter" and isinstance(e.target, Func) and e.target.name == "sequence" and e.target not in setters:
                setters.append(e.target)
    rep.instance(len(setters))
    rep.floor(2, "sequence setters reached from resequence")
    for st in setters:
        prm = st.params[1]
        ok = True
        for p in function_paths(ctx.cfg(st)):
            if p.raises:
                continue
            stored = None
            for node, lab in p.nodes:
                if node.kind == "stmt" and isinstance(node.ast, ast.Assign):
                    for t in node.ast.targets:
                        if isinstance(t, ast.Attribute) and src(t.value) == "self" and t.attr == "_sequence":
                            stored = node.ast.value
            if stored is None or not mentions(deep_resolve(stored, p.env), prm):
                ok = False
                atoms = "; ".join(f"{snippet(t, 30)}={'T' if tr else 'F'}" for t, tr in p.atoms) or "unconditional"
                rep.violation(st.qualname, f"path [{atoms}] stores {snippet(stored) if stored is not None else 'nothing'}", "a normally returning path of the sequence setter does not store the number it was given: resequencing leaves this entry with another number", where(st), inp="AddrGroup(...ios subnet members...).resequence(10, 10)")
        if ok:
            rep.ok(st.qualname, f"every normal path stores a value derived from `{prm}`", where=where(st))


def _drops_only_empty_groups(e: ast.AST, base: str) -> bool:
    """`[o for o in <base> if not isinstance(o, <Group>) or o.items]`: the same list, in order, without the nested
    groups that have no members."""
    if not (isinstance(e, ast.ListComp) and len(e.generators) == 1 and isinstance(e.generators[0].target, ast.Name) and src(e.generators[0].iter) == base and src(e.elt) == e.generators[0].target.id and len(e.generators[0].ifs) == 1):
        return False
    v = e.generators[0].target.id
    t = e.generators[0].ifs[0]
    # `not (isinstance(o, G) and not o.items)` is the same test
    if isinstance(t, ast.UnaryOp) and isinstance(t.op, ast.Not) and isinstance(t.operand, ast.BoolOp) and isinstance(t.operand.op, ast.And) and len(t.operand.values) == 2:
        def neg(x: ast.AST) -> ast.AST:
            return x.operand if isinstance(x, ast.UnaryOp) and isinstance(x.op, ast.Not) else ast.UnaryOp(op=ast.Not(), operand=x)
        t = ast.BoolOp(op=ast.Or(), values=[neg(x) for x in t.operand.values])
    if not (isinstance(t, ast.BoolOp) and isinstance(t.op, ast.Or) and len(t.values) == 2):
        return False
    notinst = [x for x in t.values if isinstance(x, ast.UnaryOp) and isinstance(x.op, ast.Not) and isinstance(x.operand, ast.Call) and src(x.operand.func) == "isinstance" and len(x.operand.args) == 2 and src(x.operand.args[0]) == v]
    members = [x for x in t.values if isinstance(x, ast.Attribute) and src(x.value) == v and x.attr.lstrip("_") == "items"]
    return len(notinst) == 1 and len(members) == 1


def nested_list_not_defaulted(ctx: Ctx, rep: Report, rid: str = "R10.8", only: Optional[Set[str]] = None) -> int:
    """A method that descends into a nested group by calling itself with the nested list in an optional argument
    (`self.resequence(..., items=item.items)`) must tell "no list given" from "an empty list given": with
    `kwargs.get("items") or self._items` an EMPTY nested group is answered with the caller's own list, the method calls
    itself on the same list again, and the descent that object nesting was to bound never ends (RecursionError)."""
    rep.rule(rid)
    hits = 0
    n = 0
    for f in ctx.prog.funcs:
        if f.cls is None or (only is not None and f.qualname not in only):
            continue
        kwname = f.node.args.kwarg.arg if f.node.args.kwarg else None
        # keys of optional arguments this method passes to itself: keyword, or a dict spread that it builds
        passed: Set[str] = set()
        for c in [x for x in own_nodes(f.node) if isinstance(x, ast.Call) and isinstance(x.func, ast.Attribute) and x.func.attr == f.name and src(x.func.value) in ("self", "super()")]:
            passed |= {k.arg for k in c.keywords if k.arg}
            for k in c.keywords:
                if k.arg is None and isinstance(k.value, ast.Name):
                    for d in own_nodes(f.node):
                        if isinstance(d, (ast.Assign, ast.AnnAssign)) and d.value is not None and any(isinstance(t, ast.Name) and t.id == k.value.id for t in (d.targets if isinstance(d, ast.Assign) else [d.target])):
                            if isinstance(d.value, ast.Call) and src(d.value.func) == "dict":
                                passed |= {kk.arg for kk in d.value.keywords if kk.arg}
                            elif isinstance(d.value, ast.Dict):
                                passed |= {kk.value for kk in d.value.keys if isinstance(kk, ast.Constant)}
        if not passed:
            continue
        # the nested call gives a key explicitly AND spreads the caller's own **kwargs next to it: one level down the
        # kwargs already hold that key - `dict(items=..., **kwargs)` / `f(items=..., **kwargs)` raise TypeError there
        if kwname:
            for x in own_nodes(f.node):
                if isinstance(x, ast.Call) and ((isinstance(x.func, ast.Name) and x.func.id == "dict") or (isinstance(x.func, ast.Attribute) and x.func.attr == f.name and src(x.func.value) in ("self", "super()"))):
                    explicit = {k.arg for k in x.keywords if k.arg}
                    spreads_own = any(k.arg is None and isinstance(k.value, ast.Name) and k.value.id == kwname for k in x.keywords)
                    clash = sorted(explicit & passed)
                    if spreads_own and clash and (isinstance(x.func, ast.Attribute) or any(isinstance(c2, ast.Call) and isinstance(c2.func, ast.Attribute) and c2.func.attr == f.name for c2 in own_nodes(f.node))):
                        hits += 1
                        rep.instance()
                        rep.violation(f.qualname, snippet(x, 60), f"the descent gives {clash} explicitly and spreads the caller's own keyword arguments next to it: inside a nested group those arguments already hold {clash}, so a group inside a group raises TypeError ('multiple values for keyword argument') and the ACL is left half renumbered", where(f, x), inp="acl = Acl(items=[AceGroup(items=[AceGroup('permit ip any any')])]); acl.resequence()")
        for x in own_nodes(f.node):
            if not (isinstance(x, ast.BoolOp) and isinstance(x.op, ast.Or) and len(x.values) >= 2):
                continue
            first = x.values[0]
            key = None
            if kwname and isinstance(first, ast.Call) and isinstance(first.func, ast.Attribute) and first.func.attr == "get" and src(first.func.value) == kwname and first.args and isinstance(first.args[0], ast.Constant):
                key = first.args[0].value
            elif isinstance(first, ast.Name) and first.id in f.params:
                key = first.id
            if key is None or key not in passed:
                continue
            own = [v for v in x.values[1:] if any(isinstance(z, ast.Attribute) and src(z.value) == "self" for z in ast.walk(v))]
            if not own:
                continue
            n += 1
            hits += 1
            rep.instance()
            rep.violation(f.qualname, snippet(x, 60), f"the nested list handed down in `{key}` is replaced by the object's own list when it is empty: an empty nested group makes the method call itself on the same list for ever (RecursionError, not a documented error; no number is returned)", where(f, x), inp="acl = Acl(text, group_by='=== '); acl.items[0].items = []; acl.resequence()")
    rep.instance()
    if hits == 0:
        rep.ok("package", "no self-recursive method replaces an empty nested list by its own list", nontrivial=False)
    return hits


def rendered_numbers(ctx: Ctx, rep: Report, rid: str = "R10.6") -> None:
    """A number the resequencing stored is visible in the rendered line: the helper that renders the sequence prefix
    returns the empty text only for 0 (no number), never for a value in 1..4294967295."""
    rep.rule(rid)
    smax = ctx.folder.try_const("helpers", "SEQUENCE_MAX")
    smax = smax if isinstance(smax, int) else SEQ_MAX
    dom = IntSet([(1, smax)])
    n = 0
    for f in ctx.prog.funcs:
        if f.name != "_sequence_s" or f.cls is None:
            continue
        n += 1
        rep.instance()
        bad = None
        for p in function_paths(ctx.cfg(f)):
            if p.raises:
                continue
            r = deep_resolve(p.ret, p.env) if p.ret is not None else None
            empty = r is None or (isinstance(r, ast.Constant) and not r.value)
            if not empty:
                continue
            acc = IntSet.all()
            undecided = False
            for t, truth in p.atoms:
                try:
                    s_ = cond_to_intset(deep_resolve(t, p.env), lambda x: src(x) in ("self._sequence", "self.sequence"), lambda x: ctx.folder.fold(x, f.module))
                except NotInterval:
                    undecided = True
                    continue
                acc = acc.intersect(s_ if truth else s_.complement())
            hidden = acc.intersect(dom)
            if hidden != IntSet.empty() and not undecided:
                bad = (p, hidden)
                break
        if bad is not None:
            p, hidden = bad
            rep.violation(f.qualname, f"returns '' for sequence in {hidden}", "a stored number in 1..4294967295 is rendered as no number: the rendered ACL (and its re-parse) lose it while .sequence still holds it", where(f), inp="acl.resequence(start=4294967295, step=1) on a one-line ACL")
        else:
            rep.ok(f.qualname, f"'' only for sequence outside 1..{smax}", where=where(f))
    rep.require(n >= 1, "no _sequence_s renderer found")
    # ... and every way an entry is rendered starts with that prefix (a standard ACE as well as an extended one, a remark)
    from .common import rendered_sequences

    m = 0
    for q in ("Ace.line.getter", "Remark.line.getter"):
        g = ctx.prog.find_func(q)
        if g is None:
            continue
        from .normalise import normalised

        seqs = rendered_sequences(ctx, g)
        if any(els is None for els, _ in seqs):
            seqs = rendered_sequences(ctx, normalised(ctx, g, "unroll,calls,ifexp"))  # a filtering loop over a literal tuple
        for els, pi in seqs:
            m += 1
            rep.instance()
            if els is None:
                # a rendering this reader does not follow (not a join of a list): the prefix must at least be computed on
                # this path and flow into what is returned
                r = deep_resolve(pi.ret, pi.env) if pi.ret is not None else None
                ok = (r is not None and ("_sequence_s()" in src(r) or "_sequence" in src(r))) or any(nd.ast is not None and "_sequence_s()" in src(nd.ast.iter if nd.kind == "for" else nd.ast) for nd, _lab in pi.nodes)
            else:
                ok = bool(els) and ("_sequence_s()" in src(els[0]) or "self._sequence" in src(els[0]) or "self.sequence" in src(els[0]))
                # a renderer that filters empty words while it collects them leaves the prefix out exactly when it is empty
                if not ok and any((not tr) and "_sequence_s()" in src(t) for t, tr in pi.atoms):
                    ok = True
            # the words are collected by a loop over a literal whose first element is the prefix
            if not ok and any(nd.kind == "for" and isinstance(nd.ast.iter, (ast.Tuple, ast.List)) and nd.ast.iter.elts and "_sequence_s()" in src(nd.ast.iter.elts[0]) for nd, _lab in pi.nodes):
                ok = True
            held = "; ".join(f"{snippet(t, 30)}{'' if tr else ' (false)'}" for t, tr in pi.atoms)[:120]
            if ok:
                rep.ok(f"{q} [{held}]", "the rendered line starts with the sequence prefix", nontrivial=False, where=where(g))
            else:
                rep.violation(q, f"path [{held}]", "on this path the entry is rendered without its sequence number: after resequencing `.sequence` holds a number the text does not show, and a re-parse of the text loses it", where(g), inp="Acl('ip access-list standard A\\n permit host 10.0.0.1').resequence()")
    rep.floor(2, "rendering paths of Ace.line / Remark.line") if m else None


def _before(cfg, g: ast.If, cn: Node) -> bool:
    gn = None
    for c in cfg.live:
        if c.kind == "cond" and any(c.ast is x for x in ast.walk(g.test)):
            gn = c
            break
    if gn is None:
        return False
    return cn in cfg.reachable(gn, labels_avoid=("exc",)) and gn not in cfg.reachable(cn, labels_avoid=("exc",))


def _manual_counter_guard(ctx: Ctx, f: Func, cfg, loop: Node, inc: Node, conds, defs, bsrc: str, body_start) -> Tuple[bool, str]:
    """The guard of the increment tests a counter that is advanced by +-1 exactly once per iteration: decide for which
    iterations k = 1..N the guard holds (must be all but the last), for two list lengths N."""
    for c, lab in conds:
        names = [x.id for x in ast.walk(c.ast) if isinstance(x, ast.Name)]
        for cv in names:
            ups = [n for n in cfg.live if n.kind == "stmt" and isinstance(n.ast, ast.AugAssign) and src(n.ast.target) == cv and isinstance(n.ast.op, (ast.Add, ast.Sub)) and isinstance(n.ast.value, ast.Constant) and n.ast.value.value == 1]
            if len(ups) != 1 or not defs.get(cv) or len(defs[cv]) != 1:
                continue
            up = ups[0]
            d = 1 if isinstance(up.ast.op, ast.Add) else -1
            # the update runs exactly once on every path through the loop body
            if not body_start or not (up is body_start[0] or cfg.all_paths_pass(body_start[0], loop, lambda n, up=up: n is up, labels_avoid=("exc",))):
                continue
            if any(n is not up and n.kind == "stmt" and n.ast is not None and any(isinstance(x, ast.Name) and x.id == cv and isinstance(x.ctx, ast.Store) for x in ast.walk(n.ast)) for n in cfg.reachable(body_start[0], labels_avoid=("exc",)) if loop in cfg.reachable(n, labels_avoid=("exc",))):
                continue
            before_guard = c in cfg.reachable(up, labels_avoid=("exc",)) and not (up in cfg.reachable(c, labels_avoid=("exc",)) and cfg.dominates(c, up))
            verdicts = []
            for N in (1000, 7):
                symenv = {f"len({bsrc})": N}
                for k_, v_ in defs.items():
                    if v_ and src(v_[0]) == f"len({bsrc})":
                        symenv[k_] = N
                a = ctx.folder.fold(defs[cv][0], f.module, symenv)
                if not isinstance(a, int):
                    verdicts = []
                    break
                try:
                    s_ = cond_to_intset(c.ast, lambda x: isinstance(x, ast.Name) and x.id == cv, lambda x: ctx.folder.fold(x, f.module, {k2: v2 for k2, v2 in symenv.items() if k2 != cv}))
                except NotInterval:
                    verdicts = []
                    break
                if lab == "F":
                    s_ = s_.complement()
                holds = [k for k in range(1, N + 1) if s_.contains(a + d * (k if before_guard else k - 1))]
                verdicts.append(holds == list(range(1, N)))
            if verdicts and all(verdicts):
                return True, ""
            if verdicts:
                return False, f"the increment is guarded by the hand-kept counter `{cv}`, but the guard does not hold for exactly all items except the last"
    return False, ""


def _traversal(ctx: Ctx, rep: Report, f: Func) -> None:  # noqa: C901
    cfg = ctx.cfg(f)
    fors = [n for n in cfg.live if n.kind == "for"]
    rep.instance()
    if not fors:
        rep.violation(f.qualname, "loop", "no loop numbers the items", where(f))
        return
    loop = fors[0]
    it = loop.ast.iter
    base = it
    enum_start = None
    idxvar = None
    itemvar = src(loop.ast.target)
    if isinstance(it, ast.Call) and isinstance(it.func, ast.Name) and it.func.id == "enumerate":
        base = it.args[0]
        enum_start = 0
        for kw in it.keywords:
            if kw.arg == "start":
                v = ctx.folder.fold(kw.value, f.module)
                enum_start = v if isinstance(v, int) else None
        if len(it.args) > 1:
            v = ctx.folder.fold(it.args[1], f.module)
            enum_start = v if isinstance(v, int) else None
        if isinstance(loop.ast.target, ast.Tuple) and len(loop.ast.target.elts) == 2:
            idxvar, itemvar = src(loop.ast.target.elts[0]), src(loop.ast.target.elts[1])
    elif isinstance(it, ast.Call) and isinstance(it.func, ast.Name) and it.func.id in ("zip", "map", "starmap") or (isinstance(it, ast.Call) and src(it.func).startswith("itertools.")):
        # the numbers are computed beforehand and paired with the items (`zip(items, numbers)`): not the running-number
        # shape this rule reads - what each item gets cannot be read off the loop
        # ... except for one hazard that can be read off: zip() stops at the shorter argument, so numbers taken from a
        # range with a fixed end run out silently - the items after that keep their old numbers and no error is raised
        defs0: Dict[str, ast.AST] = {}
        for n0 in own_nodes(f.node):
            if isinstance(n0, ast.Assign) and len(n0.targets) == 1 and isinstance(n0.targets[0], ast.Name):
                defs0[n0.targets[0].id] = n0.value
            elif isinstance(n0, ast.AnnAssign) and isinstance(n0.target, ast.Name) and n0.value is not None:
                defs0[n0.target.id] = n0.value
        bounded = None
        if isinstance(it, ast.Call) and isinstance(it.func, ast.Name) and it.func.id == "zip":
            for a0 in it.args:
                e0 = defs0.get(a0.id, a0) if isinstance(a0, ast.Name) else a0
                for y0 in ast.walk(e0):
                    if isinstance(y0, ast.Call) and isinstance(y0.func, ast.Name) and y0.func.id == "range" and len(y0.args) >= 2 and "len(" not in src(y0.args[1]):
                        bounded = y0
        if bounded is not None:
            rep.violation(f.qualname, f"for ... in {snippet(it, 40)}  <-  {snippet(bounded, 50)}", "the numbers are taken from a range with a fixed end and paired with the items by zip(), which stops at the shorter argument: when the numbers run out the remaining items keep their old numbers and nothing is raised (the returned last number stays below the limit)", where(f, it), inp="AddrGroup with 5 members; resequence(start=4294967290, step=2)")
            return
        # ... and the returned number is the number the last item got: the variable that is stored on the items, or the
        # last element of the numbers that were paired with them
        stored = [x.value for x in ast.walk(loop.ast) if isinstance(x, ast.Assign) and any(isinstance(t, ast.Attribute) and t.attr.lstrip("_") == "sequence" for t in x.targets)]
        rets0 = [x.value for x in own_nodes(f.node) if isinstance(x, ast.Return) and x.value is not None]
        zipped = {a0.id for a0 in it.args if isinstance(a0, ast.Name)} if isinstance(it, ast.Call) else set()
        for r0 in rets0:
            last_of_numbers = isinstance(r0, ast.Subscript) and isinstance(r0.value, ast.Name) and r0.value.id in zipped and src(r0.slice) == "-1"
            if stored and not last_of_numbers and not any(src(r0) == src(v0) for v0 in stored):
                rep.violation(f.qualname, f"return {snippet(r0, 40)}", f"the value returned is not the number the items were given (`{snippet(stored[0], 30)}`): the caller continues the numbering of the next block from a number that is already taken", where(f, r0), inp="an ACL with two blocks; resequence(10, 10)")
                return
        rep.note(f"R10.4 {f.qualname}: the loop pairs the items with numbers computed elsewhere (`{snippet(it, 40)}`) - order and step of the numbering not judged")
        return
    paths = function_paths(cfg)
    env0 = paths[0].env if paths else {}
    defs: Dict[str, List[ast.AST]] = {}
    for n in own_nodes(f.node):
        if isinstance(n, ast.Assign) and len(n.targets) == 1 and isinstance(n.targets[0], ast.Name):
            defs.setdefault(n.targets[0].id, []).append(n.value)
        elif isinstance(n, ast.AnnAssign) and isinstance(n.target, ast.Name) and n.value is not None:
            defs.setdefault(n.target.id, []).append(n.value)
    bsrc = src(base)
    bdef = defs.get(bsrc, [None])[0] if isinstance(base, ast.Name) else base
    # `items = kwargs.get("items")` / `if items is None: items = self._items`: the own list is one of the sources
    own_def = next((d_ for d_ in (defs.get(bsrc, []) if isinstance(base, ast.Name) else [base]) if "self._items" in src(d_) or "self.items" in src(d_)), None)
    if own_def is not None and bdef is not None and not ("self._items" in src(bdef) or "self.items" in src(bdef)) and ("kwargs" in src(bdef) or any(p_ in src(bdef) for p_ in f.params[1:])):
        bdef = own_def
    okbase = bdef is not None and ("self._items" in src(bdef) or "self.items" in src(bdef)) and not any(w in src(it) for w in ("reversed", "sorted", "[::-1]"))
    # the list may not be re-bound to a filtered / reordered version of itself before the loop
    if isinstance(base, ast.Name):
        for extra in defs.get(bsrc, [])[1:]:
            if extra is own_def:
                continue
            if _drops_only_empty_groups(extra, bsrc):
                continue  # a nested group without lines renders nothing: leaving it out leaves every rendered line in
            if isinstance(extra, (ast.ListComp, ast.GeneratorExp)) and any(g.ifs for g in extra.generators) or any(w in src(extra) for w in ("sorted(", "reversed(", "[::-1]", "filter(")) or isinstance(extra, ast.Subscript):
                okbase = False
                bdef = extra
    if okbase:
        rep.ok(f"{f.qualname}: for ... in {snippet(it, 50)}", f"list order of {snippet(bdef, 50)}", where=where(f, it))
    else:
        rep.violation(f.qualname, f"for ... in {snippet(it)}", "items are not numbered in the order of the item list (rendered order)", where(f, it))
    # every item gets its number: each path through the body passes a store to <item>.sequence
    body_start = [s for lab, s in loop.succ if lab == "body"]
    rep.instance()

    def is_number_store(n: Node) -> bool:
        if n.kind == "stmt" and isinstance(n.ast, ast.Assign):
            for t in n.ast.targets:
                if isinstance(t, ast.Attribute) and t.attr in ("sequence", "_sequence") and src(t.value) == itemvar:
                    return True
        return False

    stores = [n for n in cfg.live if is_number_store(n)]
    if not stores:
        rep.violation(f.qualname, f"{itemvar}.sequence = ...", "no statement stores the number on the item", where(f))
        return
    if body_start and (is_number_store(body_start[0]) or cfg.all_paths_pass(body_start[0], loop, is_number_store, labels_avoid=("exc",))):
        rep.ok(f"{f.qualname}: {snippet(stores[0].ast)}", "on every path through the loop body", where=where(f, stores[0].ast))
    else:
        rep.violation(f.qualname, snippet(stores[0].ast), "some path through the loop body skips numbering the item", where(f, stores[0].ast))
    run_var = src(stores[0].ast.value)
    # a nested group is numbered after its members: the number a block carries is the number the recursive call came back
    # with (its last line), which is what orders blocks against the lines around them
    rec = [n for n in cfg.live if n.kind == "stmt" and n.ast is not None and any(isinstance(x, ast.Call) and isinstance(x.func, ast.Attribute) and x.func.attr == f.name and src(x.func.value) in ("self", itemvar) for x in ast.walk(n.ast))]
    if rec and body_start:
        rep.instance()
        early = [st for st in stores if any(r in cfg.reachable(st, avoid=lambda m: m is loop, labels_avoid=("exc",)) for r in rec)]
        if early:
            rep.violation(f.qualname, f"{snippet(early[0].ast, 40)} before {snippet(rec[0].ast, 50)}", "a nested group is given its number before its members are numbered: it carries the number of its first line, not of its last, so sorting by number puts lines that were inserted after it in front of it", where(f, early[0].ast), inp="group(); resequence(); insert an entry numbered inside a block; sort()")
        else:
            rep.ok(f"{f.qualname}: nested groups", "numbered after their members (the number the recursive call returned)", where=where(f, rec[0].ast))
    # running variable: initialised from start; returned
    rep.instance()
    init = defs.get(run_var, [])
    p_start = f.params[1] if len(f.params) > 1 else "start"
    p_step = f.params[2] if len(f.params) > 2 else "step"
    init_ok = any(mentions(d, p_start) and not mentions(d, run_var) for d in init)
    rets = [n for n in cfg.live if n.kind == "stmt" and isinstance(n.ast, ast.Return)]
    ret_ok = bool(rets) and all(r.ast.value is not None and src(r.ast.value) == run_var for r in rets)
    if init_ok and ret_ok:
        rep.ok(f"{f.qualname}: running number {run_var}", f"initialised from {p_start}, stored on each item, returned", where=where(f))
    else:
        rep.violation(f.qualname, f"running number {run_var}", f"must start from {p_start} and be the returned value (init from start: {init_ok}, returned: {ret_ok})", where(f))
    # increment: `run_var += step` only when the item is not the last one
    rep.instance()
    incs = [n for n in cfg.live if n.kind == "stmt" and isinstance(n.ast, ast.AugAssign) and src(n.ast.target) == run_var]
    other_updates = [n for n in cfg.live if n.kind == "stmt" and isinstance(n.ast, ast.Assign) and any(isinstance(t, ast.Name) and t.id == run_var for t in n.ast.targets)]
    if len(incs) != 1 or not isinstance(incs[0].ast.op, ast.Add) or src(incs[0].ast.value) != p_step:
        rep.violation(f.qualname, "; ".join(snippet(n.ast) for n in incs) or "no increment", f"the running number must advance by `{p_step}` exactly once per item", where(f))
    else:
        inc = incs[0]
        deps = cfg.control_deps(inc)
        conds = [(c, lab) for c, lab in deps if c.kind == "cond"]
        N = 1000
        okc = False
        why = "the increment is unconditional: the returned value is one step beyond the last number and the next block starts too high"
        for c, lab in conds:
            symenv = {"count": N, f"len({bsrc})": N}
            for k, v in defs.items():
                if v and src(v[0]) == f"len({bsrc})":
                    symenv[k] = N
            for k, v in defs.items():
                # a local computed from the length (`idx_last = len(items) - 1`)
                if len(v) == 1 and k not in symenv and f"len({bsrc})" in src(v[0]):
                    val = ctx.folder.fold(v[0], f.module, symenv)
                    if isinstance(val, int) and not isinstance(val, bool):
                        symenv[k] = val
            if idxvar is None or enum_start is None:
                continue
            try:
                s_ = cond_to_intset(c.ast, lambda x: isinstance(x, ast.Name) and x.id == idxvar, lambda x: ctx.folder.fold(x, f.module, symenv))
            except NotInterval:
                continue
            if lab == "F":
                s_ = s_.complement()
            dom = IntSet([(enum_start, enum_start + N - 1)])
            got = s_.intersect(dom)
            wantset = IntSet([(enum_start, enum_start + N - 2)])
            all_but_first = IntSet([(enum_start + 1, enum_start + N - 1)])
            inc_first = all(st in cfg.reachable(inc, avoid=lambda m: m is loop, labels_avoid=("exc",)) and inc not in cfg.reachable(st, avoid=lambda m: m is loop, labels_avoid=("exc",)) for st in stores)
            if got == wantset:
                okc = True
            elif got == all_but_first and inc_first:
                okc = True  # the step is added BEFORE every item but the first: the same numbers, the same last number
            else:
                why = f"the increment runs for positions {got} of {dom} (expected all but the last)"
        if not okc and conds:
            # a counter kept by hand: `c = len(xs)` / `c = 0` before the loop, `c -= 1` / `c += 1` once per iteration
            okc2, why2 = _manual_counter_guard(ctx, f, cfg, loop, inc, conds, defs, bsrc, body_start)
            if okc2:
                okc = True
            elif why2:
                why = why2
        # no path through the loop body may bypass the guard altogether (e.g. a `continue` before it)
        good_guards = [c for c, lab in conds]
        bypass = None
        if okc and body_start:
            for path in loop_body_paths(cfg, loop):
                if path[-1][0] is not loop:
                    continue
                nodes = [n for n, _ in path]
                if inc not in nodes and not any(g in nodes for g in good_guards):
                    bypass = path
                    break
        if okc and bypass is None:
            rep.ok(f"{f.qualname}: {snippet(inc.ast)}", "for every item except the last, on every path through the loop body", where=where(f, inc.ast))
        elif okc:
            rep.violation(f.qualname, f"path {' -> '.join(snippet(n.ast, 30) for n, _ in bypass if n.ast is not None and n.kind != 'cond')[:160]} skips `{snippet(inc.ast)}`", "an item can be numbered without the running number advancing: the next line gets the same number", where(f, inc.ast), path=[repr(n) for n, _ in bypass], inp="an ACL with two groups: the item after the first group repeats the group's last number")
        else:
            rep.violation(f.qualname, snippet(inc.ast), why, where(f, inc.ast))
    # descent into groups (only where the class holds groups)
    rec = []
    for e in ctx.cg.all_edges(f):
        if e.kind == "call" and isinstance(e.target, Func) and e.target.name == "resequence" and isinstance(e.site, ast.Call):
            rec.append(e.site)
    rec = list({id(x): x for x in rec}.values())
    if f.cls is not None and f.cls.name in ("AceGroup", "Acl"):
        rep.instance()
        if not rec:
            rep.violation(f.qualname, "nested groups", "the numbering does not descend into nested groups: lines inside groups keep their old numbers", where(f))
            return
        call = rec[0]
        cn = cfg.node_containing(call)
        kw = {k.arg: k.value for k in call.keywords if k.arg}
        star = [k.value for k in call.keywords if k.arg is None]
        items_arg = kw.get("items")
        if items_arg is None:
            for sname in star:
                d = defs.get(src(sname), [None])[0]
                if isinstance(d, ast.Call) and src(d.func) == "dict":
                    for k in d.keywords:
                        if k.arg == "items":
                            items_arg = k.value
                elif isinstance(d, ast.Dict):
                    for k, v in zip(d.keys, d.values):
                        if isinstance(k, ast.Constant) and k.value == "items":
                            items_arg = v
        ok_items = items_arg is not None and src(items_arg) in (f"{itemvar}.items", f"{itemvar}._items")
        ok_start = "start" in kw and src(kw["start"]) == run_var
        ok_step = "step" in kw and src(kw["step"]) == p_step
        assigns = isinstance(cn.ast, ast.Assign) and any(isinstance(t, ast.Name) and t.id == run_var for t in cn.ast.targets) if cn is not None else False
        before_store = cn is not None and all(cn not in cfg.reachable(s, labels_avoid=("exc",)) or loop in cfg.reachable(s, labels_avoid=("exc",)) for s in stores)
        guarded = cn is not None and any(c.kind == "cond" and "isinstance" in src(c.ast) and itemvar in src(c.ast) and lab == "T" for c, lab in cfg.control_deps(cn))
        through_decorated = isinstance(call.func, ast.Attribute) and src(call.func.value) in ("self", itemvar)
        if ok_items and ok_start and ok_step and assigns and guarded and through_decorated:
            rep.ok(f"{f.qualname}: {snippet(call, 70)}", f"descends into {itemvar}.items from the running number through the decorated method; its result becomes the running number", where=where(f, call))
        else:
            rep.violation(
                f.qualname,
                snippet(call),
                f"descent into a nested group must be `{run_var} = self.resequence(start={run_var}, step={p_step}, items={itemvar}.items)` under an isinstance guard "
                f"(items={ok_items}, start={ok_start}, step={ok_step}, result kept={assigns}, guarded={guarded})",
                where(f, call),
            )


# what the later rounds (seeding rounds 2-5, refactor twins, defect hunt) added to what the check decides
LATER_ROUNDS = "an empty nested group cannot send the descent back to the caller's own list, every rendering path starts with the number, numbers paired with the items by zip() do not come from a fixed-end range"
EXPLANATION = EXPLANATION.replace(" Does not decide", " Later rounds added: " + LATER_ROUNDS + ". Does not decide", 1) if " Does not decide" in EXPLANATION else EXPLANATION + " Later rounds added: " + LATER_ROUNDS + "."
