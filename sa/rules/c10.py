"""C10 — not implemented yet (fail closed)."""
from ..model import AnalysisError
PROPERTY = "C10"
LEVEL = "other"
EXPLANATION = "not implemented"
def run(ctx, rep, tier):
    raise AnalysisError("rules for C10 are not implemented yet")
