"""C02 IOS <-> NX-OS conversion changes spelling only — propagation, split-before-convert, total renderers, identity."""

from __future__ import annotations

import ast
from typing import Dict, List, Optional, Set, Tuple

from ..cfg import Node
from ..core import Ctx, Report, snippet, where
from ..fold import known
from ..model import Class, Func, own_nodes, src
from ..pathsem import function_paths, resolve_local
from ..typeinf import classes_of, elem, members
from .common import chain, deep_resolve, loop_body_paths, mentions, possible_values, single_env
from .keys import DATA_CLASSES, reinit_sites

PROPERTY = "C02"
LEVEL = "other"
EXPLANATION = (
    "Decides that a platform change reaches every object of the tree (each child object or list element is converted "
    "explicitly or rebuilt under the new platform; adopted or rebuilt items are stamped with the container's platform), "
    "that multi-port entries are split before any item is converted to NX-OS, that renderers are total (platform-indexed "
    "tables cover every platform the validator can return, no partial lookup, no lookup-type exception can escape), that "
    "writer keywords belong to the target platform's reader, address re-typing uses size-pinning tests, and that identity "
    "and sequence survive re-initialisation. Does not decide that converted rules match the same packets or that the "
    "there-and-back text converges."
)
ASSUMPTIONS = ["platforms claimed: ios and nxos"]


def children(ctx: Ctx, cls: Class) -> Dict[str, str]:
    """attribute -> 'scalar' | 'list' for attributes holding Base-derived objects."""
    base = ctx.cls("Base")
    attrs: Set[str] = set()
    for c in cls.mro:
        for f in c.all_funcs():
            for n in own_nodes(f.node):
                if isinstance(n, (ast.Assign, ast.AnnAssign)):
                    for t in n.targets if isinstance(n, ast.Assign) else [n.target]:
                        if isinstance(t, ast.Attribute) and src(t.value) == "self":
                            attrs.add(t.attr)
    out: Dict[str, str] = {}
    for a in sorted(attrs):
        if cls.lookup_setter(a) is not None:
            continue
        t = ctx.types.attr_type(cls, a)
        if any(c.is_subclass_of(base) for c in classes_of(t)):
            out[a] = "scalar"
        elif any(m[0] == "list" and any(c.is_subclass_of(base) for c in classes_of(m[1])) for m in members(t)):
            out[a] = "list"
    return out


def _reinit_in(ctx: Ctx, f: Func) -> bool:
    """The (normalised) body re-creates the object from its own data: Cls(**d) + self.__dict__.update, or self.__init__(**d)."""
    upd = any(isinstance(n, ast.Call) and isinstance(n.func, ast.Attribute) and n.func.attr == "update" and src(n.func.value) == "self.__dict__" for n in own_nodes(f.node))
    for n in own_nodes(f.node):
        if isinstance(n, ast.Call) and any(k.arg is None for k in n.keywords):
            if isinstance(n.func, ast.Attribute) and n.func.attr == "__init__" and src(n.func.value) == "self":
                return True
            if upd and isinstance(n.func, ast.Name) and n.func.id in ctx.prog.classes:
                return True
    return False


def r02_1(ctx: Ctx, rep: Report) -> None:  # noqa: C901
    rep.rule("R02.1")
    sites = reinit_sites(ctx)
    done: Set[Tuple[str, str]] = set()
    for cn in DATA_CLASSES:
        cls = ctx.cls(cn)
        st = cls.lookup_setter("platform")
        if st is None:
            continue
        ch = children(ctx, cls)
        from .normalise import normalised

        # see through a private helper called as a statement and a loop over a literal tuple of fields
        nst = normalised(ctx, st, "calls,unroll,getattr")
        cfg = ctx.cfg(nst)
        reinit = any(f is st for f, _, _, _ in sites) or _reinit_in(ctx, nst)
        senv = single_env(nst.node)  # `platform_new = h.init_platform(platform)` stored instead of the parameter itself
        param = st.params[1]
        for attr, kind in ch.items():
            rep.instance()
            label = f"{cn}.{attr} via {st.qualname}"

            def conv_store(n: Node, recv: str) -> bool:
                if n.kind == "stmt" and isinstance(n.ast, ast.Assign):
                    for t in n.ast.targets:
                        if isinstance(t, ast.Attribute) and t.attr in ("platform", "_platform") and src(t.value) == recv:
                            v = deep_resolve(n.ast.value, senv)
                            return mentions(v, "self") or mentions(v, param)
                return False

            ok, why = False, ""
            if kind == "scalar":
                if cfg.all_paths_pass(cfg.entry, cfg.exit, lambda n: conv_store(n, f"self.{attr}"), labels_avoid=("exc",)):
                    ok, why = True, f"self.{attr}.platform is assigned on every normal path"
            else:
                loops = [n for n in cfg.live if n.kind == "for" and src(n.ast.iter) in (f"self.{attr}", f"self.{attr.lstrip('_')}")]
                for lp in loops:
                    var = src(lp.ast.target)
                    body_ok = all(any(conv_store(n, var) for n, _ in path) for path in loop_body_paths(cfg, lp) if path[-1][0] is lp)
                    passes = cfg.all_paths_pass(cfg.entry, cfg.exit, lambda n, lp=lp: n is lp, labels_avoid=("exc",))
                    if body_ok and passes:
                        ok, why = True, f"every element of self.{attr} gets .platform on every path"
            if not ok and reinit:
                # rebuilt: every construction site of the child passes platform=self._platform and __init__ does not restore it from its own dict
                ctor_sites = []
                restored = False
                for c in cls.mro:
                    for f in c.all_funcs():
                        locals_ = {}
                        for n in own_nodes(f.node):
                            if isinstance(n, (ast.Assign, ast.AnnAssign)) and n.value is not None:
                                t0 = n.targets[0] if isinstance(n, ast.Assign) else n.target
                                if isinstance(t0, ast.Name):
                                    locals_.setdefault(t0.id, []).append(n.value)
                        for n in own_nodes(f.node):
                            if isinstance(n, ast.Assign) and any(isinstance(t, ast.Attribute) and src(t) == f"self.{attr}" for t in n.targets):
                                v = n.value
                                if isinstance(v, ast.Name) and len(locals_.get(v.id, [])) == 1:
                                    v = locals_[v.id][0]  # built into a local first (validated), stored afterwards
                                if isinstance(v, ast.Name) and v.id in f.params and f.name.startswith("_") and f.name != "__init__":
                                    # stored by a private helper that is handed the child (`self._set_wildcard(type_, w)`): the
                                    # construction sites are where the callers build what they hand over
                                    for g_ in c.all_funcs():
                                        glocals = {}
                                        for y_ in own_nodes(g_.node):
                                            if isinstance(y_, (ast.Assign, ast.AnnAssign)) and y_.value is not None:
                                                ty_ = y_.targets[0] if isinstance(y_, ast.Assign) else y_.target
                                                if isinstance(ty_, ast.Name):
                                                    glocals.setdefault(ty_.id, []).append(y_.value)
                                        for y_ in own_nodes(g_.node):
                                            if isinstance(y_, ast.Call) and isinstance(y_.func, ast.Attribute) and src(y_.func.value) == "self" and y_.func.attr == f.name:
                                                ps_ = [p_ for p_ in f.params if p_ not in ("self", "cls")]
                                                a_ = next((k_.value for k_ in y_.keywords if k_.arg == v.id), None)
                                                if a_ is None and v.id in ps_ and ps_.index(v.id) < len(y_.args):
                                                    a_ = y_.args[ps_.index(v.id)]
                                                if isinstance(a_, ast.Name) and len(glocals.get(a_.id, [])) == 1:
                                                    a_ = glocals[a_.id][0]
                                                if isinstance(a_, ast.Call):
                                                    ctor_sites.append((g_, a_))
                                    continue
                                if not isinstance(v, ast.Call):
                                    continue
                                if f.name == "__init__":
                                    if any(k.arg is None for k in v.keywords):
                                        restored = True
                                    continue
                                ctor_sites.append((f, v))
                good = [1 for f, v in ctor_sites if any(k.arg == "platform" and src(k.value) in ("self._platform", "self.platform") for k in v.keywords)]
                if ctor_sites and len(good) == len(ctor_sites) and not restored:
                    ok, why = True, f"re-initialised: all {len(ctor_sites)} construction sites pass platform=self._platform"
            if ok:
                rep.ok(label, why, where=where(st))
            else:
                rep.violation(
                    st.qualname,
                    f"{cn}: child {attr} is not converted",
                    f"the platform setter neither assigns .platform on {'each element of ' if kind == 'list' else ''}self.{attr} on every path nor rebuilds it under the new platform: part of the tree keeps the old platform's spelling",
                    where(st),
                    inp=f"{cn} with an address group / nested object; platform = 'nxos'; rendered text mixes both syntaxes",
                )
    rep.floor(8, "child objects of platform-convertible classes")
    # adoption / rebuilding stamps the platform
    rep.rule("R02.1b")
    for q in ("AceGroup.items.setter", "Acl.items.setter", "AddrGroup.items.setter", "AddressBase._init_items"):
        from .common import per_item_unit

        unit = per_item_unit(ctx, ctx.func(q))
        if unit is None:
            rep.instance()
            rep.violation(q, "per-item conversion", "neither a loop over the supplied items nor a per-item helper was found: adoption of items cannot be judged", where(ctx.func(q)))
            continue
        units = [unit]
        f, var, paths, anchor, is_helper = units[0]
        lp_ast = anchor
        # the kind of item is picked by a table (`for types, convert in converters: if isinstance(item, types): ...`): which
        # statements handle which kind cannot be read off the paths - not judged, never an alarm
        table_pick = False
        for path in paths:
            for n_, lab_ in path:
                if n_.kind == "cond" and isinstance(n_.ast, ast.Call) and src(n_.ast.func) == "isinstance" and len(n_.ast.args) == 2 and src(n_.ast.args[0]) == var:
                    spec = n_.ast.args[1]
                    names = [src(e) for e in (spec.elts if isinstance(spec, ast.Tuple) else [spec])]
                    if not all(nm in ctx.prog.classes or nm in ("str", "dict", "list", "tuple", "int", "bytes") or nm.startswith("self.") or "." in nm for nm in names):
                        table_pick = True
        if table_pick:
            rep.instance()
            rep.note(f"R02.1b {q}: the kind of an item is looked up in a table of converters - stamping of adopted items not judged")
            continue
        for path in paths:
            atoms = [(src(n.ast), lab == "T") for n, lab in path if n.kind == "cond" and lab in ("T", "F")]
            kind = None
            for a, tr in atoms:
                if tr and a.startswith("isinstance(") and var in a:
                    if "dict" in a:
                        kind = "dict"
                    elif ", str)" in a:
                        kind = "str"
                    else:
                        kind = "object"
            if kind is None:
                continue
            if not is_helper and not any(n.kind == "stmt" and n.ast is not None and any(isinstance(x, ast.Call) and isinstance(x.func, ast.Attribute) and x.func.attr == "append" for x in ast.walk(n.ast)) for n, _ in path):
                continue  # skipped lines (description, invalid)
            rep.instance()
            stamped = False
            for n, lab in path:
                if n.kind != "stmt" or n.ast is None:
                    continue
                if isinstance(n.ast, ast.Assign):
                    for t in n.ast.targets:
                        if kind == "object" and isinstance(t, ast.Attribute) and t.attr in ("platform", "_platform") and src(t.value) == var and "platform" in src(n.ast.value):
                            stamped = True
                        if kind == "dict" and isinstance(t, ast.Subscript) and src(t.value) == var and isinstance(t.slice, ast.Constant) and t.slice.value == "platform":
                            stamped = True
                if kind == "str":
                    for x in ast.walk(n.ast):
                        if isinstance(x, ast.Call):
                            if any(k.arg == "platform" and "platform" in src(k.value) for k in x.keywords):
                                stamped = True
                            targets = [e.target for e in ctx.cg.all_edges(f) if e.site is x and isinstance(e.target, Func) and e.kind == "call" and not e.weak]
                            if not targets:
                                # `self` of a local function is the enclosing method's object
                                from .common import callee_of_self_call

                                outer = f
                                while outer.parent is not None:
                                    outer = outer.parent
                                m_ = callee_of_self_call(ctx, outer, x)
                                if m_ is not None:
                                    targets = [m_]
                            for g in targets:
                                if True:
                                    ctor_calls = [y for y in own_nodes(g.node) if isinstance(y, ast.Call) and isinstance(y.func, (ast.Name, ast.Attribute)) and (src(y.func) in ctx.prog.classes or src(y.func) == "self.__class__")]
                                    if ctor_calls and all(any(k.arg == "platform" and src(k.value) in ("self._platform", "self.platform") for k in y.keywords) for y in ctor_calls):
                                        stamped = True
            if stamped:
                rep.ok(f"{q}: {kind} item", "receives the container's platform", where=where(f, lp_ast))
            else:
                rep.violation(q, f"{kind} item adopted without the container's platform", "an item added to the container keeps (or is parsed under) another platform: the ACL renders mixed syntax", where(f, lp_ast), inp="acl_nxos.items = [ios_ace]")
    rep.floor(9, "item adoption branches")


def normalised_platform_only(ctx: Ctx, rep: Report, rid: str = "R02.9") -> None:
    """A function that normalises a platform argument with init_platform (aliases such as "cnx", "cisco_ios" become
    "nxos", "ios") uses the raw argument for nothing else: a comparison with a platform literal, or handing the raw
    spelling on to a child, treats an alias as an unknown platform."""
    rep.rule(rid)
    n = 0
    for f in sorted(ctx.prog.funcs, key=lambda x: x.qualname):
        norm_calls = [c for c in own_nodes(f.node) if isinstance(c, ast.Call) and src(c.func).split(".")[-1] == "init_platform"]
        if not norm_calls:
            continue
        a = f.node.args
        params = {x.arg for x in a.posonlyargs + a.args + a.kwonlyargs}
        raw = set()
        for c in norm_calls:
            for v in list(c.args) + [k.value for k in c.keywords if k.arg is not None]:
                if isinstance(v, ast.Name) and v.id in params:
                    raw.add(v.id)
        if not raw:
            continue
        cfg = ctx.cfg(f)
        for prm in sorted(raw):
            n += 1
            rep.instance()
            # nodes after which the name holds something else than the raw argument
            rebinds = [nd for nd in cfg.live if nd.ast is not None and nd.kind in ("stmt", "for") and any(isinstance(x, ast.Name) and x.id == prm and isinstance(x.ctx, ast.Store) for x in ast.walk(nd.ast if nd.kind == "stmt" else nd.ast.target))]
            raw_reach = cfg.reachable(cfg.entry, avoid=lambda m: m in rebinds, labels_avoid=())
            bad = None
            for nd in cfg.live:
                if nd.ast is None or nd.kind not in ("stmt", "cond", "for") or (nd not in raw_reach and nd not in rebinds):
                    continue
                root = nd.ast.iter if nd.kind == "for" else nd.ast
                inside_norm = {id(x) for c in norm_calls for x in ast.walk(c)}
                for x in ast.walk(root):
                    if isinstance(x, ast.Name) and x.id == prm and isinstance(x.ctx, ast.Load) and id(x) not in inside_norm:
                        par = getattr(x, "_parent", None)
                        # harmless: error messages and type checks of the raw value
                        if isinstance(par, ast.FormattedValue) or (isinstance(par, ast.Call) and src(par.func) in ("isinstance", "str", "repr", "type")):
                            continue
                        if nd in rebinds and nd not in raw_reach:
                            continue
                        bad = bad or (nd, x)
            if bad is not None:
                nd, x = bad
                rep.violation(f.qualname, f"raw `{prm}` used in {snippet(nd.ast if nd.kind != 'for' else nd.ast.iter, 60)}", f"the platform argument is used before/without normalisation although the function normalises it with init_platform: an accepted alias (\"cnx\", \"cisco_nxos\", \"cisco_ios\") is treated as another platform", where(f, x), inp="acl.platform = 'cnx' on an ACL with 'eq 1 2'")
            else:
                rep.ok(f"{f.qualname}: `{prm}`", "only init_platform reads the raw argument", nontrivial=False, where=where(f))
    rep.floor(5, "functions that normalise a platform argument")


def render_after_switch(ctx: Ctx, rep: Report, rid: str = "R02.8") -> None:
    """A platform setter that converts by re-parsing its own text renders that text *after* the new platform is stored
    (the getter then writes the spelling of the new platform, which the setter parses under the same platform).  Text
    rendered before the switch is the old platform's spelling: names that exist on one platform only make the
    conversion fail half way."""
    rep.rule(rid)
    n = 0
    for cls in ctx.prog.classes.values():
        st = cls.setters.get("platform")
        if st is None:
            continue
        cfg = ctx.cfg(st)
        relines = [x for x in cfg.live if x.kind == "stmt" and isinstance(x.ast, ast.Assign) and any(isinstance(t, ast.Attribute) and src(t) == "self.line" for t in x.ast.targets)]
        pstores = [x for x in cfg.live if x.kind == "stmt" and isinstance(x.ast, ast.Assign) and any(isinstance(t, ast.Attribute) and src(t) in ("self._platform",) for t in x.ast.targets)]
        if not relines or not pstores:
            continue
        for rl in relines:
            v = rl.ast.value
            if not (mentions(v, "self") or isinstance(v, ast.Name)):
                continue
            n += 1
            rep.instance()
            # where was the text read?
            read_node = rl
            if isinstance(v, ast.Name):
                defs = [x for x in cfg.live if x.kind == "stmt" and isinstance(x.ast, ast.Assign) and any(isinstance(y, ast.Name) and y.id == v.id and isinstance(y.ctx, ast.Store) for t in x.ast.targets for y in ast.walk(t))]
                texty = [x for x in defs if any(isinstance(y, ast.Attribute) and src(y) in ("self.line", "self._line") for y in ast.walk(x.ast.value))]
                if not texty:
                    continue
                read_node = texty[-1]
            elif not any(isinstance(y, ast.Attribute) and src(y) in ("self.line", "self._line") for y in ast.walk(v)):
                continue
            if all(cfg.dominates(ps, read_node) for ps in pstores[:1]) and any(cfg.dominates(ps, read_node) for ps in pstores):
                rep.ok(f"{st.qualname}: {snippet(rl.ast)}", "the text is rendered after self._platform holds the new platform", where=where(st, rl.ast))
            else:
                rep.violation(st.qualname, f"{snippet(read_node.ast)} before {snippet(pstores[0].ast)}", "the text that is re-parsed was rendered under the old platform and is parsed under the new one: a port or protocol name known only to the old platform makes the conversion raise (or changes meaning)", where(st, read_node.ast), inp="Ace('permit tcp any any eq msrpc').platform = 'nxos'")
    rep.floor(1, "platform setters that re-parse their own text")


def fact_platform_range(ctx: Ctx, rep: Report) -> Set[str]:
    """_platform only ever holds a value returned by init_platform, whose return literals ⊆ PLATFORMS."""
    platforms = set(ctx.folder.const("helpers", "PLATFORMS"))
    ip = ctx.func("helpers.init_platform")
    rets: Set[str] = set()
    for n in own_nodes(ip.node):
        if isinstance(n, ast.Return) and n.value is not None:
            for v in possible_values(ctx, ip, n.value, n):
                rets.add(v if isinstance(v, str) else repr(v))
    rep.instance()
    if rets <= platforms:
        rep.ok("fact platform_range: helpers.init_platform", f"returns only {sorted(rets)} ⊆ PLATFORMS", where=where(ip))
    else:
        rep.violation("helpers.init_platform", f"returns {sorted(rets)}", f"a platform outside PLATFORMS={sorted(platforms)} can be stored: platform-indexed tables have no row for it", where(ip))
    bad = []
    for f in ctx.prog.funcs:
        for n in own_nodes(f.node):
            if isinstance(n, (ast.Assign, ast.AnnAssign)) and n.value is not None:
                for t in n.targets if isinstance(n, ast.Assign) else [n.target]:
                    if isinstance(t, ast.Attribute) and t.attr == "_platform":
                        v = n.value
                        env = {}
                        for m in own_nodes(f.node):
                            if isinstance(m, ast.Assign) and isinstance(m.targets[0], ast.Name):
                                env[m.targets[0].id] = m.value
                        v = resolve_local(v, env)
                        okv = (isinstance(v, ast.Call) and src(v.func).endswith("init_platform")) or (isinstance(v, ast.Attribute) and v.attr in ("_platform", "platform"))
                        if not okv:
                            bad.append((f, n))
    rep.instance()
    if bad:
        rep.violation(bad[0][0].qualname, snippet(bad[0][1]), "_platform is stored without passing through init_platform", where(bad[0][0], bad[0][1]))
    else:
        rep.ok("fact platform_range: writers of _platform", "every store is init_platform(...) or another object's platform", nontrivial=False)
    return rets


def r02_3(ctx: Ctx, rep: Report) -> None:
    rep.rule("R02.3")
    rets = fact_platform_range(ctx, rep)
    # f-strings render items through __str__ -> line, which the call graph does not see: start from every line getter
    roots = [c.getters["line"] for c in ctx.prog.classes.values() if "line" in c.getters]
    init_like = lambda f: f.name.startswith(("init_", "_init")) or f.name == "__init__"  # noqa: E731
    getters = [f for f in ctx.cg.reach(roots, include_weak=False, stop=init_like) if not init_like(f) and f.kind != "setter"]
    rep.instance(len(getters))
    rep.floor(8, "renderers reachable from Acl.line")
    for f in sorted(getters, key=lambda x: x.qualname):
        for n in own_nodes(f.node):
            if isinstance(n, ast.Subscript) and isinstance(n.ctx, ast.Load) and not isinstance(n.slice, ast.Slice):
                if isinstance(getattr(n, "_parent", None), ast.AnnAssign) and getattr(n, "_parent").annotation is n:
                    continue
                rep.instance()
                base = n.value
                tab = ctx.folder.fold(base, f.module) if isinstance(base, ast.Name) else None
                key = src(n.slice)
                if isinstance(tab, dict) and key in ("self._platform", "self.platform"):
                    if set(tab) >= rets - {"<unfoldable>"} and "<unfoldable>" not in rets:
                        rep.ok(f"{f.qualname}: {snippet(n)}", f"table keys {sorted(tab)} cover every platform init_platform can return", where=where(f, n))
                    else:
                        rep.violation(f.qualname, snippet(n), f"the platform-indexed table has rows {sorted(tab)} but the platform can be any of {sorted(rets)}: KeyError when rendering", where(f, n), inp="an object on the missing platform rendered")
                elif isinstance(tab, dict) and isinstance(n.slice, ast.Constant) and n.slice.value in tab:
                    rep.ok(f"{f.qualname}: {snippet(n)}", "constant key of a folded module table", nontrivial=False, where=where(f, n))
                else:
                    rep.violation(f.qualname, snippet(n), "partial lookup in a renderer: an unknown key or index raises instead of falling back to the number", where(f, n), inp="a port or protocol number without a name")
        esc = ctx.excs.escapes(f)
        bad = sorted(k for k in esc if k in ("KeyError", "IndexError", "AttributeError", "LookupError"))
        rep.instance()
        if bad:
            rep.violation(f.qualname, f"may raise {bad}", f"a renderer can raise {bad} ({esc[bad[0]][0]}:{esc[bad[0]][1]})", where(f))
        else:
            rep.ok(f"{f.qualname}: explicit raises", "no lookup-type exception", nontrivial=False, where=where(f))


def members_not_rebuilt_mid_loop(ctx: Ctx, rep: Report, rid: str = "R02.14") -> None:
    """A method that converts its members one by one does not rebuild the member list in the middle of that loop: a call,
    inside `for item in self._items`, of a method of the same object whose write set has the member list (the port
    split re-assigns `self.items`, and the items setter stamps the new platform on every entry WITHOUT converting it)
    leaves the entries not yet visited marked as converted while their fields still speak the old platform - the second
    entry of a block is then re-read as NX-OS text from IOS spellings (`object-group G`, `eq msrpc`) and refused."""
    rep.rule(rid)
    n = 0
    hits = 0
    for cls in ctx.prog.classes.values():
        for f in list(cls.methods.values()) + list(cls.setters.values()):
            for lp in [x for x in own_nodes(f.node) if isinstance(x, ast.For) and isinstance(x.iter, ast.Attribute) and src(x.iter.value) == "self" and x.iter.attr.lstrip("_") == "items"]:
                n += 1
                for c in [y for b in lp.body for y in ast.walk(b) if isinstance(y, ast.Call) and isinstance(y.func, ast.Attribute) and src(y.func.value) == "self"]:
                    g = cls.lookup_method(c.func.attr)
                    if g is None or g is f:
                        continue
                    w = {a.lstrip("_") for a, _k in ctx.effects.self_writes(g, cls)}
                    if "items" in w:
                        hits += 1
                        rep.instance()
                        rep.violation(f.qualname, f"for {snippet(lp.target, 10)} in {snippet(lp.iter, 20)}: ... {snippet(c, 40)}", f"`{snippet(c, 30)}` re-assigns the member list while the loop over it is converting the members one by one: the members not yet visited are replaced by entries that carry the new platform without having been converted, and are then re-read from text in the old platform's spelling", where(f, c), inp="Acl('ip access-list extended A\\n remark == web\\n permit ip object-group G any', group_by='== ').platform = 'nxos'  -> ValueError, ACL half converted")
    rep.instance()
    if hits == 0:
        rep.ok("package", f"{n} loops over the object's own member list: none calls a method that re-assigns the list", nontrivial=False)


def ios_members_unnumbered(ctx: Ctx, rep: Report, rid: str = "R02.10") -> None:
    """Members of an IOS object-group carry no sequence number (docs/objects.rst: "sequence ... only for platform nxos";
    AddressAg.line writes the number whenever it is non-zero): every normal path of AddressAg's platform setter that ends
    on platform ios leaves _sequence at 0, whatever kind of member it is."""
    rep.rule(rid)
    cls = ctx.cls("AddressAg")
    st = cls.lookup_setter("platform")
    rep.require(st is not None, "AddressAg lost its platform setter")
    from .normalise import normalised

    f = normalised(ctx, st, "calls")
    cfg = ctx.cfg(f)
    paths = [p for p in function_paths(cfg) if not p.raises]
    rep.instance(len(paths))
    rep.floor(2, "normal paths of AddressAg.platform setter")
    n_ios = 0
    seen_keys: Set[Tuple] = set()
    for p in paths:
        feas = True
        for test, truth in p.atoms:
            v = ctx.folder.fold(test, f.module, {"self._platform": "ios", "self.platform": "ios"})
            if known(v) and bool(v) != truth:
                feas = False
                break
        if not feas:
            continue
        n_ios += 1
        key = tuple((src(t), tr) for t, tr in p.atoms if "latform" not in src(t) and not src(t).startswith("item"))
        if key in seen_keys:
            continue
        seen_keys.add(key)
        cleared = False
        for node, _lab in p.nodes:
            if node.kind == "stmt" and isinstance(node.ast, (ast.Assign, ast.AnnAssign)) and node.ast.value is not None:
                tgts = node.ast.targets if isinstance(node.ast, ast.Assign) else [node.ast.target]
                if any(isinstance(t, ast.Attribute) and src(t.value) == "self" and t.attr in ("_sequence", "sequence") for t in tgts) and isinstance(node.ast.value, ast.Constant) and node.ast.value.value == 0:
                    cleared = True
        held = "; ".join(f"{snippet(t, 40)}{'' if tr else ' (false)'}" for t, tr in p.atoms if "latform" not in src(t))[:160]
        if cleared:
            rep.ok(f"AddressAg.platform setter -> ios [{held}]", "_sequence = 0 on this path", where=where(st))
        else:
            rep.violation("AddressAg.platform.setter", f"path to ios [{held}]", "a member converted to IOS keeps its NX-OS sequence number on this path: the object-group is rendered with a numbered entry ('10 host 10.0.0.1'), which is not IOS syntax (sequence numbers exist only on nxos)", where(st), inp="AddressAg('10 host 10.0.0.1', platform='nxos').platform = 'ios'  ->  '10 host 10.0.0.1'")
    rep.instance()
    if n_ios == 0:
        rep.violation("AddressAg.platform.setter", "paths ending on ios", "no normal path of the setter is feasible for platform ios", where(st))


def members_not_rebuilt_before_conversion(ctx: Ctx, rep: Report, rid: str = "R02.15") -> None:
    """A platform setter that converts its members in a loop does not re-assign the member list between storing the new
    platform and that loop: the items setter stamps the container's platform on every adopted entry WITHOUT converting
    it, so a split of the ports (which re-assigns `self.items`) that runs when `_platform` already holds the target
    marks IOS-spelled entries as NX-OS; the blocks then re-read them from text in the wrong spelling.  Before the store
    (the stamp is the old platform) and after the loop (every member is converted) the re-assignment is harmless."""
    rep.rule(rid)
    n = 0
    for cls in ctx.prog.classes.values():
        st = cls.setters.get("platform")
        if st is None:
            continue
        cfg = ctx.cfg(st)
        loops = [x for x in cfg.live if x.kind == "for" and isinstance(x.ast.iter, ast.Attribute) and src(x.ast.iter.value) == "self" and x.ast.iter.attr.lstrip("_") == "items"]
        stores = [x for x in cfg.live if x.kind == "stmt" and isinstance(x.ast, (ast.Assign, ast.AnnAssign)) and any(isinstance(t, ast.Attribute) and src(t) == "self._platform" for t in (x.ast.targets if isinstance(x.ast, ast.Assign) else [x.ast.target]) for t in ([t] if not isinstance(t, ast.Tuple) else t.elts))]
        if not loops or not stores:
            continue
        n += 1
        rep.instance()
        bad = None
        for s_ in stores:
            between = cfg.reachable(s_, avoid=lambda x: x in loops, labels_avoid=("exc",))
            # only what can still reach the conversion loop matters
            for x in between:
                if x is s_ or x.ast is None or x.kind not in ("stmt", "cond"):
                    continue
                if not any(lp in cfg.reachable(x, labels_avoid=("exc",)) for lp in loops):
                    continue
                for y in ast.walk(x.ast):
                    g = None
                    if isinstance(y, ast.Call) and isinstance(y.func, ast.Attribute) and src(y.func.value) == "self":
                        g = cls.lookup_method(y.func.attr)
                    elif isinstance(y, ast.Attribute) and isinstance(y.ctx, ast.Store) and src(y.value) == "self" and y.attr == "items":
                        bad = (x, y)
                    if g is not None and g is not st and "items" in {a.lstrip("_") for a, _k in ctx.effects.self_writes(g, cls)}:
                        bad = (x, y)
        if bad is not None:
            rep.violation(st.qualname, snippet(bad[1], 50), f"`{snippet(bad[1], 30)}` re-assigns the member list after the new platform is stored and before the members are converted: the items setter stamps the new platform on entries whose fields still speak the old one, and the blocks re-read them from text in the old platform's spelling", where(st, bad[0].ast), inp="Acl('ip access-list extended A\n remark == web\n permit ip object-group G any', group_by='== ').platform = 'nxos'  -> ValueError, ACL half converted")
        else:
            rep.ok(st.qualname, "nothing between the store of _platform and the conversion loop re-assigns the member list", where=where(st))
    rep.floor(2, "platform setters that store the platform and convert their members in a loop")


def run(ctx: Ctx, rep: Report, tier: str) -> None:
    r02_1(ctx, rep)
    ios_members_unnumbered(ctx, rep)
    render_after_switch(ctx, rep)
    normalised_platform_only(ctx, rep)
    # R02.2: conversion to NX-OS splits multi-port entries first; the split itself must keep every item (C19's rules)
    from . import c19
    from .c01 import field_isolation

    sub = Report("C02")
    c19.run(ctx, sub, tier)
    rep.absorb(sub, "R02.2")
    field_isolation(ctx, rep, "R02.7")
    # R02.11 a converted entry is re-parsed from text that still carries the source platform's protocol names (the
    # containers stamp the new platform on their items before converting them): the reader accepts every platform's names
    from .c09 import protocol_reader_writer

    sub = Report("C02")
    sub.rule("R09.2")
    protocol_reader_writer(ctx, sub)
    rep.absorb(sub, "R02.11")
    # R02.12 what an object derived from its platform (a name table object, a snapshot of its settings) is derived again
    # when the platform changes (C17 R17.6)
    from .c17 import derived_attributes_refreshed

    sub = Report("C02")
    derived_attributes_refreshed(ctx, sub)
    rep.absorb(sub, "R02.12")
    r02_3(ctx, rep)
    members_not_rebuilt_mid_loop(ctx, rep)
    members_not_rebuilt_before_conversion(ctx, rep)
    # R02.4 writer keywords belong to the target platform's reader; R02.6 re-typing tests
    from .c01 import classification_guards
    from .c06 import r06_1
    from .c16 import dicts_rebuilt_whole, objects_adopted_once, r16_1, r16_2, settings_propagation

    sub = Report("C02")
    r06_1(ctx, sub)
    rep.absorb(sub, "R02.4")
    classification_guards(ctx, rep, rid="R02.6")
    # R02.13 a conversion re-reads the entry's text under the target platform's keyword: the group name read back is the
    # name that was written (C01 R01.17, evaluated with both keywords)
    from .c01 import group_reference_whole

    group_reference_whole(ctx, rep, rid="R02.13")
    # R02.5 identity and sequence survive
    sub = Report("C02")
    r16_1(ctx, sub)
    r16_2(ctx, sub)
    settings_propagation(ctx, sub)
    # ... and the members of referenced address groups: a conversion rebuilds every member from its exported data
    dicts_rebuilt_whole(ctx, sub)
    objects_adopted_once(ctx, sub)
    rep.absorb(sub, "R02.5")


# what the later rounds (seeding rounds 2-5, refactor twins, defect hunt) added to what the check decides
LATER_ROUNDS = "members converted to ios lose their number on every path, no conversion loop rebuilds the member list it iterates, derived name tables are re-derived, group names survive the re-read under the other keyword, nothing re-assigns the member list between storing the platform and converting the members"
EXPLANATION = EXPLANATION.replace(" Does not decide", " Later rounds added: " + LATER_ROUNDS + ". Does not decide", 1) if " Does not decide" in EXPLANATION else EXPLANATION + " Later rounds added: " + LATER_ROUNDS + "."
