"""C02 — not implemented yet (fail closed)."""
from ..model import AnalysisError
PROPERTY = "C02"
LEVEL = "other"
EXPLANATION = "not implemented"
def run(ctx, rep, tier):
    raise AnalysisError("rules for C02 are not implemented yet")
