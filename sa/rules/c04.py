"""C04 — not implemented yet (fail closed)."""
from ..model import AnalysisError
PROPERTY = "C04"
LEVEL = "other"
EXPLANATION = "not implemented"
def run(ctx, rep, tier):
    raise AnalysisError("rules for C04 are not implemented yet")
