"""C04 Deleting shadowed entries never changes a decision — bookkeeping around the removal."""

from __future__ import annotations

import ast
from typing import Dict, List, Optional, Set, Tuple

from ..cfg import Node
from ..core import Ctx, Report, snippet, where
from ..model import Func, own_nodes, src
from ..pathsem import function_paths, resolve_local
from .c03 import helper_for_field, port_cover_rules, r03_1
from .common import chain, deep_resolve, mentions, reachable_without_edges
from .shading import _int_offset, analyse_shading, check_strictly_above


def _norm_gl(ctx, q):
    """The method with private single-return helpers written out, with a generator that is consumed by one loop written as the nested loops it stands for, and pairwise
    tuple assignments split (`a, b = x[:i], x[i:]`)."""
    from .normalise import normalised

    return normalised(ctx, ctx.func(q), "valuecalls,genloops")

PROPERTY = "C04"
LEVEL = "other"
EXPLANATION = (
    "Decides the bookkeeping around the removal and its soundness premise: the pairwise test is a full conjunction and "
    "does not read an empty port list as 'no restriction'; the report returned by delete_shadow is the object the "
    "shading query produced, unmodified, and the queries do not write the ACL; candidates stand strictly below their "
    "top; only items after the top are filtered, by membership in the report, order preserved, and the grouping is "
    "re-applied. Does not decide first-match equivalence for all ACLs and packets, idempotence, or behaviour under "
    "duplicate lines (properties of values)."
)
ASSUMPTIONS = ["Ace.shadow_of is sound on the clauses C03 decides"]

DICT_MUTATORS = {"pop", "clear", "update", "setdefault", "popitem", "__setitem__", "__delitem__"}


def _local_defs(f: Func) -> Dict[str, List[ast.AST]]:
    d: Dict[str, List[ast.AST]] = {}
    for n in own_nodes(f.node):
        if isinstance(n, ast.Assign) and len(n.targets) == 1 and isinstance(n.targets[0], ast.Name):
            d.setdefault(n.targets[0].id, []).append(n.value)
        elif isinstance(n, ast.AnnAssign) and isinstance(n.target, ast.Name) and n.value is not None:
            d.setdefault(n.target.id, []).append(n.value)
    return d


def _is_shading_call(e: Optional[ast.AST]) -> bool:
    return isinstance(e, ast.Call) and isinstance(e.func, ast.Attribute) and e.func.attr == "shading" and src(e.func.value) == "self"


def r04_1(ctx: Ctx, rep: Report) -> None:  # noqa: C901
    rep.rule("R04.1")
    ds = _norm_gl(ctx, "Acl.delete_shadow")
    cfg = ctx.cfg(ds)
    defs = _local_defs(ds)
    rep.instance()
    dnames = [k for k, v in defs.items() if any(_is_shading_call(x) for x in v)]
    if not dnames:
        rep.violation("Acl.delete_shadow", "report", "the report is not obtained from self.shading(...)", where(ds))
        return
    D = dnames[0]
    call = [x for x in defs[D] if _is_shading_call(x)][0]
    args = [src(a) for a in call.args] + [src(k.value) for k in call.keywords]
    if "skip" in ds.params and args != ["skip"]:
        rep.violation("Acl.delete_shadow", snippet(call), "the shading query is not asked with the caller's own skip options", where(ds, call))
    else:
        rep.ok(f"Acl.delete_shadow: {D} = {snippet(call)}", "report comes from the shading query with the caller's skip", where=where(ds, call))
    if len(defs[D]) > 1:
        rep.violation("Acl.delete_shadow", f"{D} assigned {len(defs[D])} times", "the report variable is re-bound after the query", where(ds))
    # returns
    for p in function_paths(cfg):
        if p.raises:
            continue
        r = p.ret
        if isinstance(r, ast.Name) and r.id == D:
            continue
        empty_ok = False
        if isinstance(r, ast.Dict) and not r.keys or (isinstance(r, ast.Call) and src(r) == "dict()"):
            for test, truth in p.atoms:
                if src(test) == D and not truth:
                    empty_ok = True
        if empty_ok:
            continue
        rep.violation("Acl.delete_shadow", f"return {snippet(r) if r is not None else 'None'}", "the returned report is not what the shading query returned just before", where(ds))
        break
    else:
        rep.ok("Acl.delete_shadow: returns", f"every normal path returns {D} (or an empty dict when {D} is empty)", where=where(ds))
    # no mutation of the report
    muts = []
    for n in own_nodes(ds.node):
        if isinstance(n, ast.Call) and isinstance(n.func, ast.Attribute) and n.func.attr in DICT_MUTATORS | {"append", "extend", "remove", "sort", "reverse", "insert"}:
            c = chain(n.func.value) if not isinstance(n.func.value, ast.Subscript) else chain(n.func.value.value)
            if c and c[0] == D:
                muts.append(n)
        if isinstance(n, (ast.Assign, ast.AugAssign, ast.Delete)):
            tgts = n.targets if isinstance(n, (ast.Assign, ast.Delete)) else [n.target]
            for t in tgts:
                if isinstance(t, ast.Subscript):
                    c = chain(t.value)
                    if c and c[0] == D:
                        muts.append(n)
    # ... nor of the lists inside it: in-place reducers over its values (`reduce(operator.iconcat, D.values())` grows the
    # FIRST value list), loop variables over its values / items that are changed in place
    INPLACE = ("operator.iconcat", "operator.iadd", "iconcat", "iadd", "list.extend", "list.__iadd__")
    for n in own_nodes(ds.node):
        if isinstance(n, ast.Call) and src(n.func) in ("reduce", "functools.reduce") and len(n.args) == 2 and src(n.args[0]) in INPLACE and mentions(n.args[1], D):
            muts.append(n)
        if isinstance(n, (ast.For, ast.comprehension)) and mentions(n.iter, D):
            lvars = {y.id for y in ast.walk(n.target) if isinstance(y, ast.Name)}
            scope = n if isinstance(n, ast.For) else getattr(n, "_parent", n)
            for m in ast.walk(scope):
                if isinstance(m, ast.Call) and isinstance(m.func, ast.Attribute) and m.func.attr in ("append", "extend", "remove", "sort", "reverse", "insert", "pop", "clear") and isinstance(m.func.value, ast.Name) and m.func.value.id in lvars:
                    muts.append(m)
                if isinstance(m, ast.AugAssign) and isinstance(m.target, ast.Name) and m.target.id in lvars:
                    muts.append(m)
    rep.instance()
    if muts:
        rep.violation("Acl.delete_shadow", snippet(muts[0]), "the report is modified between the query and the return", where(ds, muts[0]))
    else:
        rep.ok(f"Acl.delete_shadow: {D} is never mutated", "no []=, del, pop, update, setdefault, clear on it")
    # Acl.shadow_of derives from the same query
    so = ctx.func("Acl.shadow_of")
    rep.instance()
    d2 = _local_defs(so)
    okso = any(_is_shading_call(x) and ([src(a) for a in x.args] + [src(k.value) for k in x.keywords]) == ["skip"] for v in d2.values() for x in v)
    if not okso:
        for n in own_nodes(so.node):
            if _is_shading_call(n):
                okso = True
    if okso:
        rep.ok("Acl.shadow_of", "derives from self.shading(skip)", where=where(so))
    else:
        rep.violation("Acl.shadow_of", "query", "the flat shadow list is not derived from self.shading(skip)", where(so))
    # purity of the queries
    for q in ("Acl.shading", "Acl.shadow_of"):
        f = ctx.func(q)
        rep.instance()
        w = sorted(ctx.effects.self_writes(f))
        if w:
            s = ctx.effects.summary(f)
            sites = [st for wr, lst in s.sites.items() if wr[0] == "self" for st in lst][:2]
            rep.violation(q, f"writes {w}", f"the query modifies the ACL it inspects ({sites}): a second removal or the report no longer sees the same state", where(f))
        else:
            rep.ok(f"{q}: write-set on self", "empty (works on self.copy())", where=where(f))


def _r04_3_enumerate(ctx: Ctx, rep: Report, ds: Func, defs, resolve, enum_filters) -> None:
    """Sub-verdicts (i)/(ii) of R04.3 for the positional form of the filter."""
    for comp, g, mem, pos, base in enum_filters:
        rep.instance()
        bound = pos.comparators[0]
        bdef = resolve(bound)
        k = None
        lines_list = None
        if isinstance(bdef, ast.BinOp) and isinstance(bdef.op, ast.Add):
            for a, b in ((bdef.left, bdef.right), (bdef.right, bdef.left)):
                if isinstance(b, ast.Constant) and isinstance(b.value, int) and isinstance(a, ast.Call) and isinstance(a.func, ast.Attribute) and a.func.attr == "index":
                    k, lines_list = b.value, a.func.value
        elif isinstance(bdef, ast.Call) and isinstance(bdef.func, ast.Attribute) and bdef.func.attr == "index":
            k, lines_list = 0, bdef.func.value
        # positions kept unfiltered: i < index(top) + k  (or <=): the top itself (position index(top)) must be among them
        kept_through = None if k is None else (k - 1 if isinstance(pos.ops[0], ast.Lt) else k)
        if kept_through is None:
            rep.violation("Acl.delete_shadow", snippet(comp, 80), f"the position bound {snippet(bound)} of the unfiltered part is not `<lines>.index(top) + 1`", where(ds, comp))
        elif kept_through < 0:
            rep.violation("Acl.delete_shadow", f"{snippet(pos)} with {snippet(bound)} = {snippet(bdef)}", "the filtered part starts at the top itself, not after it: the covering entry can be removed", where(ds, comp))
        elif kept_through > 0:
            rep.violation("Acl.delete_shadow", f"{snippet(pos)} with {snippet(bound)} = {snippet(bdef)}", "entries directly below the top are exempt from the filter: shadowed entries stay", where(ds, comp))
        else:
            rep.ok(f"Acl.delete_shadow: filter over positions of {snippet(base, 40)}", f"positions up to the top are kept, positions after it filtered ({snippet(pos)}; {snippet(bound)} = {snippet(bdef, 40)})", where=where(ds, comp))
        ll = resolve(lines_list)
        rep.instance()
        if isinstance(ll, ast.ListComp) and len(ll.generators) == 1 and isinstance(ll.elt, ast.Attribute) and ll.elt.attr == "line" and src(ll.generators[0].iter) in (src(base), src(resolve(base))) and not ll.generators[0].ifs:
            rep.ok(f"Acl.delete_shadow: {snippet(lines_list, 20)} = {snippet(ll, 50)}", "positions of lines = positions of items", where=where(ds))
        else:
            rep.violation("Acl.delete_shadow", f"{snippet(lines_list) if lines_list is not None else '?'} = {snippet(ll) if ll is not None else '?'}", f"the index is not computed on the line projection of {snippet(base)}: positions do not correspond", where(ds))
        rep.instance()
        S = mem.comparators[0]
        sdefs = defs.get(S.id, []) if isinstance(S, ast.Name) else []
        from_report = False
        for sd in sdefs:
            for x in ast.walk(sd):
                if isinstance(x, ast.Call) and isinstance(x.func, ast.Attribute) and x.func.attr == "values":
                    root = resolve(x.func.value)
                    if _is_shading_call(root) or (isinstance(x.func.value, ast.Name) and any(_is_shading_call(y) for y in defs.get(x.func.value.id, []))):
                        from_report = True
        if from_report:
            rep.ok(f"Acl.delete_shadow: predicate `{snippet(mem)}`", f"{snippet(S)} is the flattened report", where=where(ds, comp))
        else:
            rep.violation("Acl.delete_shadow", snippet(mem), "entries are removed by something other than membership in the shading report", where(ds, comp))


def r04_3(ctx: Ctx, rep: Report) -> None:  # noqa: C901
    rep.rule("R04.3")
    ds = _norm_gl(ctx, "Acl.delete_shadow")
    cfg = ctx.cfg(ds)
    defs = _local_defs(ds)

    def first(name: str) -> Optional[ast.AST]:
        v = defs.get(name)
        return v[0] if v else None

    def resolve(e: Optional[ast.AST], depth: int = 0) -> Optional[ast.AST]:
        while isinstance(e, ast.Name) and e.id in defs and depth < 6:
            # prefer a definition that is not self-referential
            cands = [x for x in defs[e.id] if not mentions(x, e.id)] or defs[e.id]
            e = cands[0]
            depth += 1
        return e

    # (i) filters
    filters = []
    for n in own_nodes(ds.node):
        if isinstance(n, ast.ListComp) and len(n.generators) == 1:
            g = n.generators[0]
            for cond in g.ifs:
                if isinstance(cond, ast.Compare) and len(cond.ops) == 1 and isinstance(cond.ops[0], ast.NotIn) and isinstance(cond.left, ast.Attribute) and cond.left.attr == "line" and src(cond.left.value) == src(g.target):
                    filters.append((n, g, cond))
    # the same filter written over positions: [o for i, o in enumerate(X) if i < K or o.line not in S]
    enum_filters = []
    for n in own_nodes(ds.node):
        if isinstance(n, ast.ListComp) and len(n.generators) == 1:
            g = n.generators[0]
            if isinstance(g.iter, ast.Call) and src(g.iter.func) == "enumerate" and len(g.iter.args) == 1 and isinstance(g.target, ast.Tuple) and len(g.target.elts) == 2 and len(g.ifs) == 1 and src(n.elt) == src(g.target.elts[1]):
                ivar, ovar = src(g.target.elts[0]), src(g.target.elts[1])
                t = g.ifs[0]
                if isinstance(t, ast.BoolOp) and isinstance(t.op, ast.Or) and len(t.values) == 2:
                    pos = [v for v in t.values if isinstance(v, ast.Compare) and len(v.ops) == 1 and src(v.left) == ivar and isinstance(v.ops[0], (ast.Lt, ast.LtE))]
                    mem = [v for v in t.values if isinstance(v, ast.Compare) and len(v.ops) == 1 and isinstance(v.ops[0], ast.NotIn) and isinstance(v.left, ast.Attribute) and v.left.attr == "line" and src(v.left.value) == ovar]
                    if len(pos) == 1 and len(mem) == 1:
                        enum_filters.append((n, g, mem[0], pos[0], g.iter.args[0]))
    if enum_filters and not filters:
        _r04_3_enumerate(ctx, rep, ds, defs, resolve, enum_filters)
        filters_done = True
    else:
        filters_done = False
    rep.instance()
    if not filters and not filters_done:
        rep.violation("Acl.delete_shadow", "filter", "no filter of the form [o for o in <items below the top> if o.line not in <report>] removes the shadowed entries", where(ds))
        return
    copies = [k for k, v in defs.items() if any(isinstance(x, ast.Call) and isinstance(x.func, ast.Attribute) and x.func.attr == "copy" and src(x.func.value) == "self" for x in v)]
    for comp, g, cond in filters:
        srcexpr = g.iter
        if isinstance(srcexpr, ast.Name):
            cands = [x for x in defs.get(srcexpr.id, []) if not mentions(x, srcexpr.id)]
            srcexpr = cands[0] if cands else srcexpr
        cons = snippet(comp, 80)
        if isinstance(srcexpr, ast.Subscript) and isinstance(srcexpr.slice, ast.Slice) and srcexpr.slice.lower is not None and srcexpr.slice.upper is None:
            idx = srcexpr.slice.lower
            base = srcexpr.value
            idx_def = resolve(idx)
            # idx = <lines>.index(top) + k, k >= 1
            k = None
            lines_list = None
            if isinstance(idx_def, ast.BinOp) and isinstance(idx_def.op, ast.Add):
                for a, b in ((idx_def.left, idx_def.right), (idx_def.right, idx_def.left)):
                    if isinstance(b, ast.Constant) and isinstance(b.value, int) and isinstance(a, ast.Call) and isinstance(a.func, ast.Attribute) and a.func.attr == "index":
                        k = b.value
                        lines_list = a.func.value
            elif isinstance(idx_def, ast.Call) and isinstance(idx_def.func, ast.Attribute) and idx_def.func.attr == "index":
                k = 0
                lines_list = idx_def.func.value
            if k is None:
                rep.violation("Acl.delete_shadow", cons, f"the lower bound {snippet(idx)} of the filtered part is not `<lines>.index(top) + 1`", where(ds, comp))
            elif k < 1:
                rep.violation("Acl.delete_shadow", f"{snippet(idx)} = {snippet(idx_def)}", "the filtered part starts at the top itself, not after it: the covering entry can be removed", where(ds, comp))
            else:
                rep.ok(f"Acl.delete_shadow: filter over {snippet(srcexpr, 40)}", f"tail strictly after the top ({snippet(idx_def, 40)})", where=where(ds, comp))
            # lines list is the line projection of the same item list, same order
            ll = resolve(lines_list)
            rep.instance()
            if isinstance(ll, ast.ListComp) and len(ll.generators) == 1 and isinstance(ll.elt, ast.Attribute) and ll.elt.attr == "line" and src(ll.generators[0].iter) in (src(base), src(resolve(base))) and not ll.generators[0].ifs:
                rep.ok(f"Acl.delete_shadow: {snippet(lines_list, 20)} = {snippet(ll, 50)}", "positions of lines = positions of items", where=where(ds))
            else:
                rep.violation("Acl.delete_shadow", f"{snippet(lines_list) if lines_list is not None else '?'} = {snippet(ll) if ll is not None else '?'}", f"the index is not computed on the line projection of {snippet(base)}: positions do not correspond", where(ds))
        else:
            rep.violation("Acl.delete_shadow", cons, f"the filter is applied to {snippet(srcexpr)}, not only to the items after the top: an identical line above the top is removed too", where(ds, comp))
        # predicate set derives from the report values
        rep.instance()
        S = cond.comparators[0]
        sdefs = defs.get(S.id, []) if isinstance(S, ast.Name) else []
        from_report = False
        for sd in sdefs:
            for x in ast.walk(sd):
                if isinstance(x, ast.Call) and isinstance(x.func, ast.Attribute) and x.func.attr == "values":
                    root = resolve(x.func.value)
                    if _is_shading_call(root) or (isinstance(x.func.value, ast.Name) and any(_is_shading_call(y) for y in defs.get(x.func.value.id, []))):
                        from_report = True
        if from_report:
            rep.ok(f"Acl.delete_shadow: predicate `{snippet(cond)}`", f"{snippet(S)} is the flattened report", where=where(ds, comp))
        else:
            rep.violation("Acl.delete_shadow", snippet(cond), "entries are removed by something other than membership in the shading report", where(ds, comp))
    # (iii) concatenation head + filtered tail, stored to the copy's items
    rep.instance()
    stores = []
    for n in own_nodes(ds.node):
        if isinstance(n, ast.Assign) and len(n.targets) == 1 and isinstance(n.targets[0], ast.Attribute) and n.targets[0].attr == "items":
            stores.append(n)
    concat_ok = False
    for st in stores:
        v = st.value
        if isinstance(v, ast.Name):
            v = resolve(v)  # `new = head + [filtered tail]` ... `<copy>.items = new`
        if isinstance(v, ast.BinOp) and isinstance(v.op, ast.Add):
            l, r = resolve(v.left), resolve(v.right)
            head = isinstance(l, ast.Subscript) and isinstance(l.slice, ast.Slice) and l.slice.lower is None and l.slice.upper is not None
            # the right operand is (re)bound to the filter
            tail = any(src(v.right) == src(g.iter) or isinstance(r, ast.ListComp) for comp, g, cond in filters)
            if head and tail:
                concat_ok = True
                rep.ok(f"Acl.delete_shadow: {snippet(st)}", "head kept whole + filtered tail, in this order", where=where(ds, st))
            else:
                rep.violation("Acl.delete_shadow", snippet(st), "the new item list is not (items up to the top, unfiltered) + (filtered items below)", where(ds, st))
                concat_ok = True
    if not concat_ok and filters_done:
        for st in stores:
            if any(st.value is comp for comp, _g, _m, _p, _b in enum_filters):
                concat_ok = True
                rep.ok(f"Acl.delete_shadow: {snippet(st)}", "positions up to the top kept whole, positions below filtered, order kept (one comprehension over the list)", where=where(ds, st))
    if not concat_ok:
        rep.violation("Acl.delete_shadow", "item list rebuild", "no `<copy>.items = head + filtered tail` statement found", where(ds))
    # (v)/(vi) regroup and final store
    rep.instance()
    final = [st for st in stores if src(st.targets[0].value) == "self"]
    if not final:
        rep.violation("Acl.delete_shadow", "self.items = ...", "the filtered list is never stored back", where(ds))
        return
    fin = final[-1]
    fin_node = cfg.node_of(fin)
    ok_src = isinstance(fin.value, ast.Attribute) and fin.value.attr == "items" and src(fin.value.value) in copies
    if not ok_src:
        rep.violation("Acl.delete_shadow", snippet(fin), "the stored list is not the item list of the filtered copy", where(ds, fin))
    else:
        rep.ok(f"Acl.delete_shadow: {snippet(fin)}", "stores the filtered copy's items", where=where(ds, fin))
    rep.instance()
    gconds = [c for c in cfg.live if c.kind == "cond" and src(c.ast) in ("self.group_by", "self._group_by")]
    regroup_ok = False
    for c in gconds:
        tsucc = [s for lab, s in c.succ if lab == "T"]
        if not tsucc:
            continue

        def is_group(n: Node) -> bool:
            if n.kind != "stmt" or not isinstance(n.ast, ast.Expr) or not isinstance(n.ast.value, ast.Call):
                return False
            call = n.ast.value
            if not (isinstance(call.func, ast.Attribute) and call.func.attr == "group"):
                return False
            a = [src(x) for x in call.args] + [src(k.value) for k in call.keywords]
            return a in (["self.group_by"], ["self._group_by"])

        if fin_node is not None and (is_group(tsucc[0]) or cfg.all_paths_pass(tsucc[0], fin_node, is_group, labels_avoid=("exc",))) and cfg.dominates(c, fin_node):
            regroup_ok = True
    if regroup_ok:
        rep.ok("Acl.delete_shadow: regroup", "when self.group_by is set every path to the final store passes <copy>.group(self.group_by)", where=where(ds))
    else:
        rep.violation("Acl.delete_shadow", "regroup", "the grouping is not re-applied exactly when self.group_by is set: a grouped ACL comes back flat", where(ds))
    # (vii) no other removal
    rep.instance()
    removers = []
    for n in own_nodes(ds.node):
        if isinstance(n, ast.Call) and isinstance(n.func, ast.Attribute) and n.func.attr in ("pop", "remove", "clear", "delete", "__delitem__"):
            c = chain(n.func.value)
            if c and (c[0] == "self" or c[0] in copies):
                removers.append(n)
        if isinstance(n, ast.Delete):
            removers.append(n)
    if removers:
        rep.violation("Acl.delete_shadow", snippet(removers[0]), "items are removed by a statement other than the report filter", where(ds, removers[0]))
    else:
        rep.ok("Acl.delete_shadow: removal sites", "only the report filter removes items")


def kept_items_stay_themselves(ctx: Ctx, rep: Report, rid: str = "R04.9") -> None:
    """"Remarks, relative order, sequence numbers and grouping of the remaining items are untouched": the items the ACL
    holds after the removal are the items it held before, minus the removed ones.  `delete_shadow` that filters a COPY
    of the ACL which it has flattened (`copy()`; `ungroup()`), regroups it only by `group_by`, and adopts the copy's items,
    hands the ACL new objects: blocks the user made by hand dissolve, every rebuilt block loses uuid, note and number, every
    kept entry gets a new identifier."""
    rep.rule(rid)
    f = _norm_gl(ctx, "Acl.delete_shadow")
    rep.instance()
    copies = set()
    for x in own_nodes(f.node):
        if isinstance(x, (ast.Assign, ast.AnnAssign)) and x.value is not None and isinstance(x.value, ast.Call) and isinstance(x.value.func, ast.Attribute) and x.value.func.attr in ("copy", "__class__") and src(x.value.func.value) == "self":
            t = x.targets[0] if isinstance(x, ast.Assign) else x.target
            if isinstance(t, ast.Name):
                copies.add(t.id)
    flattened = {c for c in copies if any(isinstance(y, ast.Call) and isinstance(y.func, ast.Attribute) and y.func.attr == "ungroup" and src(y.func.value) == c for y in own_nodes(f.node))}
    adopted = [x for x in own_nodes(f.node) if isinstance(x, ast.Assign) and any(isinstance(t, ast.Attribute) and src(t.value) == "self" and t.attr.lstrip("_") == "items" for t in x.targets) and any(isinstance(z, ast.Attribute) and z.attr.lstrip("_") == "items" and src(z.value) in copies for z in ast.walk(x.value))]
    if adopted and flattened:
        rep.violation("Acl.delete_shadow", "the ACL adopts the items of a flattened copy of itself", "the removal is done on a copy of the ACL that was ungrouped, regrouped only by group_by, and whose items then replace the ACL's own: blocks made by hand (items=[AceGroup(...)], no group_by) dissolve into loose lines, rebuilt blocks lose identifier, note and sequence number, and every kept entry gets a new identifier", where(f, adopted[0]), inp="acl = Acl(name='A', items=[AceGroup('remark WEB\\npermit tcp any any\\npermit tcp any any eq 80'), Ace('deny ip any any')]); acl.delete_shadow(); acl.items == [Remark, Ace, Ace]")
    elif adopted:
        rep.ok("Acl.delete_shadow", "works on a copy but does not flatten it", where=where(f, adopted[0]))
    else:
        rep.ok("Acl.delete_shadow", "removes from the ACL's own items", where=where(f))


def run(ctx: Ctx, rep: Report, tier: str) -> None:
    # R04.0 premise: the pairwise test is sound on every clause C03 decides (an unsound shadow_of makes every removal unsafe)
    from . import c03

    sub = Report("C04")
    c03.run(ctx, sub, tier)
    rep.absorb(sub, "R04.0")
    r04_1(ctx, rep)
    kept_items_stay_themselves(ctx, rep)
    rep.rule("R04.2")
    check_strictly_above(ctx, rep, analyse_shading(ctx))
    r04_3(ctx, rep)
    # R04.4 premise: the working copy delete_shadow filters is a faithful copy (items, not re-parsed text)
    from .c16 import items_before_line

    items_before_line(ctx, rep, rid="R04.4")
    # R04.7 ... and the copy holds the same entries: a container stamps on the children it rebuilds only settings it
    # exports itself (a stamped, un-exported limit makes the copy refuse - and with a swallowing handler, drop - an entry)
    from .c16 import settings_propagation

    settings_propagation(ctx, rep, rid="R04.7")
    # R04.8 removal is by rendered line: two entries render the same line only if they are the same rule - the name of a
    # referenced group is read whole (C01 R01.17)
    from .c01 import group_reference_whole

    group_reference_whole(ctx, rep, rid="R04.8")
    # R04.5 premise: the removal uses the report computed under the caller's skip options
    from .c11 import skip_forwarding

    skip_forwarding(ctx, rep, rid="R04.5")


# what the later rounds (seeding rounds 2-5, refactor twins, defect hunt) added to what the check decides
LATER_ROUNDS = "the ACL keeps its own items (a removal done on a flattened copy is reported: known finding K7)"
EXPLANATION = EXPLANATION.replace(" Does not decide", " Later rounds added: " + LATER_ROUNDS + ". Does not decide", 1) if " Does not decide" in EXPLANATION else EXPLANATION + " Later rounds added: " + LATER_ROUNDS + "."
