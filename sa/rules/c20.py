"""C20 — not implemented yet (fail closed)."""
from ..model import AnalysisError
PROPERTY = "C20"
LEVEL = "other"
EXPLANATION = "not implemented"
def run(ctx, rep, tier):
    raise AnalysisError("rules for C20 are not implemented yet")
