"""C20 Arbitrary text only yields an object or a documented error — escape analysis, recursion, loops, regexes."""

from __future__ import annotations

import ast
import re as _re
from typing import Any, Dict, List, Optional, Set, Tuple

from ..cfg import CFG, Node, exc_is_subclass
from ..core import Ctx, Report, snippet, where
from ..fold import UNKNOWN, known
from ..model import AnalysisError, Class, Func, own_nodes, src
from ..pathsem import function_paths, resolve_local
from ..typeinf import NONE, classes_of, members
from .. import rx
from .c01 import PARSERS, regex_pieces
from .common import chain, deep_resolve, mentions, names_in, reachable_without_edges
from .keys import exported

from .c08 import items_to_ints_func  # noqa: E402

PROPERTY = "C20"
LEVEL = "other"
EXPLANATION = (
    "Decides which exception classes can escape the 11 constructors and the 3 config-level functions (explicit raises "
    "and raising library calls through the call graph, minus what handlers catch; every implicit raiser in the slice - "
    "integer and key subscripts, attribute access on possibly-None values - is an obligation discharged by a local proof "
    "rule or a named, re-checked fact), which recursive cycles exist and what bounds their depth, that loops terminate "
    "(no loop mutates what it iterates; every while loop has a recognised variant), that the regular expressions have no "
    "exponential backtracking hazard, and that address classification assigns the whole state on every platform. Does "
    "not decide that returned objects render re-acceptable text in general, nor wall-clock bounds."
)
ASSUMPTIONS = [
    "input lines are not length-limited: polynomial (degree <= 2) regex backtracking is accepted and recorded",
    "ipaddress constructors raise only ValueError subclasses and TypeError",
    "depth of user-built object nesting (groups in groups) is the caller's responsibility",
]

DOCUMENTED = ("ValueError", "TypeError")
ENTRY_CLASSES = ["Ace", "Remark", "AceGroup", "Acl", "Address", "AddressAg", "AddrGroup", "Port", "Protocol", "Option", "Wildcard"]
ENTRY_FUNCS = ["functions.acls", "functions.aces", "functions.addrgroups"]

# recursion cycles whose depth is bounded by the nesting of objects the caller built (accepted with that reason)
OBJECT_NESTING_CYCLES = {
    "AceGroup.resequence": "descends into nested AceGroup objects (depth = nesting built by the caller)",
    "AceGroup.delete_note": "descends into nested AceGroup objects",
    "AceGroup.tcam_count": "descends into nested AceGroup objects",
    "Acl.tcam_count": "super().tcam_count() of the same cycle",
    "Acl._ungroup": "descends into nested AceGroup objects",
    "Acl.ungroup_ports": "descends into nested AceGroup objects",
    "ConfigParser._join_mdic_text.<locals>.join_config": "descends into the nested dict built by the indentation parser (same depth as K4)",
    "AddressBase.data": "descends into address-group member objects",
    "AddressAg.data": "descends into address-group member objects",
    "AddressBase.platform.setter": "descends into address-group member objects",
    "AddressAg.platform.setter": "descends into address-group member objects",
    "Acl.platform.setter": "descends into nested AceGroup objects",
    "Acl.data": "descends into nested AceGroup objects",
}
# constructor/setter cycles through `items` (a container builds its children, which are containers of the same family)
CONSTRUCTION_CYCLES = {
    "AceGroup.__init__", "AceGroup._dict_to_aceg", "AceGroup.line.setter", "Acl.group", "Acl.items.setter", "Acl.line.setter", "Group.__init__",
    "Address.__init__", "Address.items.setter", "AddressAg.__init__", "AddressAg.items.setter", "AddressBase._init_items",
    "AceGroup.items.setter", "Acl.__init__", "AceGroup._dict_to_ace",
}


def slice_funcs(ctx: Ctx) -> Tuple[List[Func], Set[Func]]:
    entries = [ctx.func(f"{c}.__init__") for c in ENTRY_CLASSES] + [ctx.func(q) for q in ENTRY_FUNCS]
    return entries, ctx.cg.reach(entries, include_weak=False)


# ------------------------------------------------------------------ R20.1 explicit escapes
def r20_1a(ctx: Ctx, rep: Report, entries: List[Func]) -> None:
    rep.rule("R20.1")
    for e in entries:
        rep.instance()
        esc = ctx.excs.escapes(e)
        bad = {k: v for k, v in esc.items() if not any(exc_is_subclass(k, d) for d in DOCUMENTED)}
        if bad:
            k = sorted(bad)[0]
            rep.violation(e.qualname, f"may raise {sorted(bad)}", f"an undocumented exception class can escape: {k} raised at {bad[k][0]}:{bad[k][1]} `{bad[k][2]}`", where(e), inp="text that reaches that statement")
        else:
            rep.ok(f"{e.qualname}: explicit/library raises", f"{sorted(esc)} ⊆ ValueError/TypeError families", where=where(e))


# ------------------------------------------------------------------ implicit raisers: local proof rules
class Discharger:
    def __init__(self, ctx: Ctx, rep: Report):
        self.ctx = ctx
        self.rep = rep
        self._groups: Dict[int, int] = {}
        self._facts: Dict[str, Tuple[bool, str]] = {}
        self._site_groups: Dict[Tuple[str, str, int], int] = {}  # (helper, tuple local, call site) -> groups of the caller's pattern
        self._site_lens: Dict[Tuple[str, str, int], int] = {}  # (helper, parameter, call site) -> length of the caller's constant

    # ---- helpers
    def cfg(self, f: Func) -> CFG:
        return self.ctx.cfg(f)

    def _dominating_conds(self, f: Func, node: ast.AST) -> List[Tuple[ast.AST, bool]]:
        """(test, truth) of conditions that must have held for `node` to execute (CFG control dependence, transitive)."""
        cfg = self.cfg(f)
        n = cfg.node_containing(node)
        if n is None:
            return []
        out = []
        for c, lab in cfg.transitive_control_deps(n):
            if c.kind == "cond" and lab in ("T", "F"):
                out.append((c.ast, lab == "T"))
        # conditions of the same short-circuit expression evaluated before it
        return out

    def _inline_guards(self, f: Func, node: ast.AST) -> List[Tuple[ast.AST, bool]]:
        """Guards inside the same expression: IfExp tests, earlier operands of `and`."""
        out = []
        child = node
        p = getattr(node, "_parent", None)
        while p is not None and not isinstance(p, ast.stmt):
            if isinstance(p, ast.IfExp):
                if child is p.body:
                    out.append((p.test, True))
                elif child is p.orelse:
                    out.append((p.test, False))
            if isinstance(p, ast.BoolOp) and isinstance(p.op, ast.And):
                idx = p.values.index(child) if child in p.values else -1
                for v in p.values[:idx] if idx > 0 else []:
                    out.append((v, True))
            if isinstance(p, ast.BoolOp) and isinstance(p.op, ast.Or):
                idx = p.values.index(child) if child in p.values else -1
                for v in p.values[:idx] if idx > 0 else []:
                    out.append((v, False))
            if isinstance(p, (ast.ListComp, ast.SetComp, ast.GeneratorExp, ast.DictComp)):
                for g in p.generators:
                    for c in g.ifs:
                        if c is not child:
                            out.append((c, True))
            child = p
            p = getattr(p, "_parent", None)
        return out

    def guards(self, f: Func, node: ast.AST) -> List[Tuple[ast.AST, bool]]:
        out = []
        for t, tr in self._inline_guards(f, node) + self._dominating_conds(f, node):
            while isinstance(t, ast.UnaryOp) and isinstance(t.op, ast.Not):
                t, tr = t.operand, not tr
            out.append((t, tr))
        return out

    @staticmethod
    def _truthy_of(test: ast.AST, truth: bool, expr_src: str) -> bool:
        """Does (test, truth) establish that `expr_src` is non-empty/truthy?"""
        t = test
        while isinstance(t, ast.NamedExpr):
            if src(t.target) == expr_src and truth:
                return True
            t = t.value
        if truth and src(t) in (expr_src, f"bool({expr_src})", f"len({expr_src})"):
            return True
        if isinstance(t, ast.Compare) and len(t.ops) == 1 and src(t.left) == f"len({expr_src})":
            c = t.comparators[0]
            if isinstance(c, ast.Constant) and isinstance(c.value, int):
                if truth and isinstance(t.ops[0], (ast.Gt,)) and c.value >= 0:
                    return True
                if truth and isinstance(t.ops[0], (ast.GtE, ast.Eq)) and c.value >= 1:
                    return True
                if not truth and isinstance(t.ops[0], (ast.NotEq,)) and c.value >= 1:
                    return True
        return False

    def _len_guard(self, f: Func, node: ast.AST, expr_src: str) -> Optional[int]:
        """n when a guard establishes len(expr) == n (e.g. `if len(x) != n: raise`)."""
        for test, truth in self.guards(f, node):
            if isinstance(test, ast.Compare) and len(test.ops) == 1 and src(test.left) == f"len({expr_src})" and isinstance(test.comparators[0], ast.Constant):
                nval = test.comparators[0].value
                if (isinstance(test.ops[0], ast.NotEq) and not truth) or (isinstance(test.ops[0], ast.Eq) and truth):
                    return nval
                if isinstance(test.ops[0], ast.GtE) and truth:
                    return nval
        return None

    def _const_seq_len(self, f: Func, e: ast.AST) -> Optional[int]:
        """Largest length of the constant sequence `e` denotes: a folded constant, or a parameter of a private helper to
        which every caller passes a constant sequence."""
        v = self.ctx.folder.fold(e, f.module, self.ctx.folder.local_env(f))
        if isinstance(v, (tuple, list, str)):
            return len(v)
        if isinstance(e, ast.Name) and e.id in f.params and f.name.startswith("_") and not any(isinstance(x, ast.Name) and x.id == e.id and isinstance(x.ctx, ast.Store) for x in own_nodes(f.node)):
            lens = []
            for g_, call_ in self._call_sites(f):
                a_ = self._arg_for(f, call_, e.id)
                pv = self.ctx.folder.fold(a_, g_.module, self.ctx.folder.local_env(g_)) if a_ is not None else None
                if not isinstance(pv, (tuple, list)):
                    return None
                lens.append(len(pv))
                self._site_lens[(f.qualname, e.id, id(call_))] = len(pv)
            return max(lens) if lens else None
        return None

    def _enumerate_bound(self, f: Func, node: ast.AST, var: str) -> Optional[int]:
        """N when `var` is the counter of an enclosing `for var, _ in enumerate(<constant sequence of N>)` (loop or
        comprehension, counting from 0)."""
        p = getattr(node, "_parent", None)
        while p is not None and p is not f.node:
            gens = []
            if isinstance(p, ast.For):
                gens.append((p.target, p.iter))
            if isinstance(p, (ast.ListComp, ast.SetComp, ast.GeneratorExp, ast.DictComp)):
                gens += [(g.target, g.iter) for g in p.generators]
            for tg, it in gens:
                if isinstance(tg, ast.Tuple) and len(tg.elts) == 2 and isinstance(tg.elts[0], ast.Name) and tg.elts[0].id == var and isinstance(it, ast.Call) and src(it.func) == "enumerate" and len(it.args) == 1 and not it.keywords:
                    return self._const_seq_len(f, it.args[0])
            p = getattr(p, "_parent", None)
        return None

    def regex_groups_of(self, f: Func, name: str, _seen: Optional[Set[str]] = None) -> Optional[int]:
        """Number of groups of the tuple bound to local `name` when it comes from a regex helper with a folded pattern."""
        _seen = _seen or set()
        if (f.qualname, name) in _seen:
            return None
        _seen = _seen | {(f.qualname, name)}
        env = self.ctx.folder.local_env(f)
        for n in own_nodes(f.node):
            if isinstance(n, (ast.Assign, ast.AnnAssign, ast.NamedExpr)) and n.value is not None:
                t = n.targets[0] if isinstance(n, ast.Assign) else n.target
                if isinstance(t, ast.Name) and t.id == name and isinstance(n.value, ast.Call):
                    c = n.value
                    fn = src(c.func)
                    if fn.endswith(("re_find_t", "findall", "findall1", "findall2", "findall3")) and c.args:
                        pat = self.ctx.folder.fold(c.args[0], f.module, env)
                        if isinstance(pat, str):
                            try:
                                return _re.compile(pat).groups
                            except _re.error:
                                return None
                        # the pattern is a parameter of a private helper: the fewest groups any caller's pattern has
                        if isinstance(c.args[0], ast.Name) and c.args[0].id in f.params and f.name.startswith("_"):
                            counts = []
                            for g_, call_ in self._call_sites(f):
                                a_ = self._arg_for(f, call_, c.args[0].id)
                                pv = self.ctx.folder.fold(a_, g_.module, self.ctx.folder.local_env(g_)) if a_ is not None else None
                                if not isinstance(pv, str):
                                    return None
                                try:
                                    counts.append(_re.compile(pv).groups)
                                except _re.error:
                                    return None
                                self._site_groups[(f.qualname, name, id(call_))] = counts[-1]
                            return min(counts) if counts else None
                # items = [s.strip() for s in _items]
                if isinstance(t, ast.Name) and t.id == name and isinstance(n.value, ast.ListComp) and len(n.value.generators) == 1 and isinstance(n.value.generators[0].iter, ast.Name):
                    return self.regex_groups_of(f, n.value.generators[0].iter.id, _seen)
        # a parameter of a private helper: what every caller passes
        if name in f.params and f.name.startswith("_") and len(_seen) < 4:
            sites = self._call_sites(f)
            gs = []
            for g, call in sites:
                a = self._arg_for(f, call, name)
                if not isinstance(a, ast.Name):
                    return None
                r = self.regex_groups_of(g, a.id, _seen)
                if r is None:
                    return None
                gs.append(r)
            if gs:
                return min(gs)
        return None

    def _call_sites(self, f: Func) -> List[Tuple[Func, ast.Call]]:
        out = []
        for g in self.ctx.prog.funcs:
            for e in self.ctx.cg.all_edges(g):
                if e.target is f and isinstance(e.site, ast.Call) and not e.weak and e.kind == "call":
                    if not any(c is e.site for _, c in out):
                        out.append((g, e.site))
        return out

    @staticmethod
    def _arg_for(f: Func, call: ast.Call, param: str) -> Optional[ast.AST]:
        params = list(f.params)
        if f.kind in ("method", "getter", "setter", "classmethod") and params:
            params = params[1:]
        for k in call.keywords:
            if k.arg == param:
                return k.value
        if param in params:
            i = params.index(param)
            if i < len(call.args):
                return call.args[i]
        return None

    def _param_nonempty(self, f: Func, param: str) -> Optional[str]:
        """`param` of a private helper is non-empty: every call site passes a local it has tested non-empty."""
        if param not in f.params or not (f.name.startswith("_") or "<locals>" in f.qualname):
            return None
        if any(isinstance(x, ast.Name) and x.id == param and isinstance(x.ctx, (ast.Store, ast.Del)) for x in own_nodes(f.node)):
            return None
        sites = self._call_sites(f)
        if not sites:
            return None
        if "<locals>" in f.qualname:
            # a local function that escapes as a value has callers this list does not show
            for g, _ in sites:
                for x in ast.walk(g.node):
                    if isinstance(x, ast.Name) and x.id == f.name and isinstance(x.ctx, ast.Load):
                        par = getattr(x, "_parent", None)
                        if not (isinstance(par, ast.Call) and par.func is x):
                            return None
        for g, call in sites:
            a = self._arg_for(f, call, param)
            if not isinstance(a, ast.Name):
                return None
            if not (any(self._truthy_of(t, tr, a.id) for t, tr in self.guards(g, call)) or self._nonempty_guard(g, call, a.id) or self._grown_nonempty(g, a.id)):
                return None
        return f"every caller of {f.qualname} ({', '.join(sorted({g.qualname for g, _ in sites}))}) passes a `{param}` it has tested non-empty"

    def exported_value_type(self, f: Func, e: ast.AST):
        """Type of `<param>["key"]` (or of a local bound once to it) when every caller passes the result of `<obj>.data()`
        for that parameter: the type of what <class of obj>.data() stores under "key"; None when this is not the shape."""
        if isinstance(e, ast.Name):
            defs = self._defs(f, e.id)
            if len(defs) != 1:
                return None
            e = defs[0]
        if not (isinstance(e, ast.Subscript) and isinstance(e.value, ast.Name) and e.value.id in f.params and isinstance(e.slice, ast.Constant) and isinstance(e.slice.value, str)):
            return None
        from ..typeinf import classes_of, union

        key, param = e.slice.value, e.value.id
        sites = self._call_sites(f)
        if not sites:
            return None
        types = []
        for g, call in sites:
            a = self._arg_for(f, call, param)
            if not isinstance(a, ast.Name):
                return None
            gd = self._defs(g, a.id)
            if len(gd) != 1 or not (isinstance(gd[0], ast.Call) and isinstance(gd[0].func, ast.Attribute) and gd[0].func.attr == "data"):
                return None
            obj_t = self.ctx.types.expr_type(gd[0].func.value, g)
            cs = classes_of(obj_t)
            if not cs:
                return None
            for c in cs:
                ex = exported(self.ctx, c)
                if key not in ex:
                    return None
                df = c.lookup_method("data")
                types.append(self.ctx.types.expr_type(ex[key], df, c))
        return union(types) if types else None

    def _grown_nonempty(self, f: Func, name: str) -> Optional[str]:
        """A local list that is only ever bound to a non-empty list literal and afterwards only grows."""
        if name in f.params:
            return None
        defs = self._defs(f, name)
        stores = [x for x in own_nodes(f.node) if isinstance(x, ast.Name) and x.id == name and isinstance(x.ctx, (ast.Store, ast.Del))]
        if not defs or len(defs) != len(stores):
            return None
        if not all(isinstance(d, ast.List) and d.elts and not any(isinstance(e, ast.Starred) for e in d.elts) for d in defs):
            return None
        for x in own_nodes(f.node):
            if isinstance(x, ast.Name) and x.id == name and isinstance(x.ctx, ast.Load):
                par = getattr(x, "_parent", None)
                if isinstance(par, ast.Attribute):
                    if par.attr not in ("append", "extend", "insert", "index", "count", "copy"):
                        return None  # pop/remove/clear/sort key tricks: not only growing
                elif isinstance(par, ast.Subscript) and par.value is x and isinstance(par.ctx, (ast.Store, ast.Del)):
                    return None
                elif isinstance(par, ast.Call) and x in par.args and not (isinstance(par.func, ast.Name) and (par.func.id in ("len", "str", "repr", "sorted", "list", "tuple", "set", "min", "max", "sum") or self._local_pure(f, par.func.id, par, x))):
                    return None  # handed to code that may shrink it
        return f"`{name}` is only ever bound to a non-empty list literal and then only grows (append/extend)"

    def _local_pure(self, f: Func, fname: str, call: ast.Call, arg: ast.AST) -> bool:
        """A local function that does not mutate the parameter the list is passed as."""
        for st in ast.walk(f.node):
            if isinstance(st, ast.FunctionDef) and st is not f.node and st.name == fname:
                i = call.args.index(arg)
                ps = [a.arg for a in st.args.posonlyargs + st.args.args]
                if i >= len(ps):
                    return False
                p_ = ps[i]
                for y in ast.walk(st):
                    if isinstance(y, ast.Name) and y.id == p_:
                        par = getattr(y, "_parent", None)
                        if isinstance(par, ast.Attribute) and par.attr not in ("index", "count", "copy"):
                            return False
                        if isinstance(par, ast.Subscript) and isinstance(par.ctx, (ast.Store, ast.Del)):
                            return False
                        if isinstance(par, ast.Call) and y in par.args and not (isinstance(par.func, ast.Name) and par.func.id in ("len", "str", "repr", "sorted", "list", "tuple")):
                            return False
                return True
        return False

    # ---- subscripts
    def subscript(self, f: Func, n: ast.Subscript) -> Optional[str]:  # noqa: C901
        """Reason why the subscript cannot raise IndexError/KeyError, or None."""
        base, idx = n.value, n.slice
        bs = src(base)
        # G1 (X or [default])[i]
        if isinstance(base, ast.BoolOp) and isinstance(base.op, ast.Or) and isinstance(base.values[-1], (ast.List, ast.Tuple)) and base.values[-1].elts:
            return "`(x or [default])[0]`: never empty"
        # comprehension result indexed: only with a fact
        ival = None
        if isinstance(idx, ast.Constant) and isinstance(idx.value, int):
            ival = idx.value
        elif isinstance(idx, ast.UnaryOp) and isinstance(idx.op, ast.USub) and isinstance(idx.operand, ast.Constant):
            ival = -idx.operand.value
        # `items[i] ... for i, key in enumerate(KEYS)` over a regex tuple: i < len(KEYS) <= number of groups
        if isinstance(idx, ast.Name) and isinstance(base, ast.Name):
            top = self._enumerate_bound(f, n, idx.id)
            if top is not None:
                g = self.regex_groups_of(f, base.id)
                if g is not None and top > g:
                    # both are what the callers of a private helper pass: compare them caller by caller
                    lens = {k[2]: v for k, v in self._site_lens.items() if k[0] == f.qualname}
                    grs = {k[2]: v for k, v in self._site_groups.items() if k[0] == f.qualname}
                    if lens and set(lens) == set(grs) and all(lens[c_] <= grs[c_] for c_ in lens):
                        top = g
                if g is not None and top <= g and any(self._nonempty_guard(f, n, nm) for nm in self._sources(f, base.id)):
                    return f"`{idx.id}` counts at most {top} keys and `{base.id}` is the tuple of a regex with at least {g} groups, guarded against no match"
        # string keys
        if isinstance(idx, ast.Constant) and isinstance(idx.value, str):
            why = self.key_subscript(f, n, idx.value)
            if why is None:
                why = self._get_guard(f, n, bs, idx)
            return why
        # a record indexed by the variable of a loop over a constant tuple of keys (`for k in ("input", "output"): d[k]`):
        # the lookup succeeds if it does for each of the constants
        if isinstance(idx, ast.Name):
            from .common import UNKNOWN_VALUE, possible_values

            vals = possible_values(self.ctx, f, idx, n)
            if vals and UNKNOWN_VALUE not in vals and all(isinstance(v_, str) for v_ in vals):
                whys = [self.key_subscript(f, n, v_) or self._get_guard(f, n, bs, ast.Constant(value=v_)) for v_ in sorted(vals)]
                if all(whys):
                    return f"`{idx.id}` is one of {sorted(vals)}; each is " + whys[0]
        # a constant table indexed by a variable that a dominating guard confines to the table's keys:
        # `if v not in ["in", "out"]: raise` ... `KEYS[v]` with KEYS = {"in": ..., "out": ...}
        if isinstance(idx, ast.Name) and isinstance(base, ast.Name):
            defs_b = self._defs(f, base.id)
            if len(defs_b) == 1 and isinstance(defs_b[0], ast.Dict) and all(isinstance(k, ast.Constant) for k in defs_b[0].keys) and base.id not in f.params:
                keys_ = {k.value for k in defs_b[0].keys}
                cfg_ = self.cfg(f)
                node_ = cfg_.node_containing(n)
                if node_ is not None:
                    for c_ in cfg_.live:
                        if c_.kind == "cond" and isinstance(c_.ast, ast.Compare) and len(c_.ast.ops) == 1 and isinstance(c_.ast.ops[0], (ast.NotIn, ast.In)) and src(c_.ast.left) == idx.id:
                            coll = c_.ast.comparators[0]
                            adm = keys_ if src(coll) == base.id else None
                            if adm is None:
                                v_ = self.ctx.folder.fold(coll, f.module)
                                if isinstance(v_, (list, tuple, set, frozenset, dict)):
                                    adm = set(v_)
                            if adm is None or not adm <= keys_:
                                continue
                            bad_lab = "T" if isinstance(c_.ast.ops[0], ast.NotIn) else "F"
                            # the lookup is not reachable through the branch on which the variable is outside the set
                            if node_ not in reachable_without_edges(cfg_, cfg_.entry, {(c_.id, "F" if bad_lab == "T" else "T")}) and cfg_.dominates(c_, node_):
                                if not any(isinstance(x, ast.Name) and x.id == idx.id and isinstance(x.ctx, ast.Store) and getattr(x, "lineno", 0) > getattr(c_.ast, "lineno", 0) and getattr(x, "lineno", 0) < getattr(n, "lineno", 0) for x in own_nodes(f.node)):
                                    return f"`{idx.id}` is confined to {sorted(adm)} by a dominating guard, all of them keys of the constant table `{base.id}`"
        if ival is not None:
            # len guard
            ln = self._len_guard(f, n, bs)
            if ln is not None and -ln <= ival < ln:
                return f"len({bs}) is pinned to {ln} by a dominating guard"
            if isinstance(base, ast.Name):
                defs = self._defs(f, base.id)
                stores = [x for x in own_nodes(f.node) if isinstance(x, ast.Name) and x.id == base.id and isinstance(x.ctx, (ast.Store, ast.Del))]
                if len(defs) == 1 and len(stores) == 1 and isinstance(defs[0], ast.Tuple) and not any(isinstance(e, ast.Starred) for e in defs[0].elts) and base.id not in f.params:
                    ln2 = len(defs[0].elts)
                    if -ln2 <= ival < ln2:
                        return f"`{base.id}` is bound once, to a tuple literal of {ln2} elements"
                ar = self._tuple_param_arity(f, n, base.id)
                if ar is not None and -ar <= ival < ar:
                    return f"`{base.id}` is an element of enumerate/zip/items(): a tuple of {ar}"
            # regex tuple
            if isinstance(base, ast.Name):
                g = self.regex_groups_of(f, base.id)
                if g is not None and g >= 2 and -g <= ival < g:
                    # non-empty guard on the raw match
                    if any(self._nonempty_guard(f, n, nm) for nm in self._sources(f, base.id)):
                        return f"tuple of a regex with {g} groups, guarded against no match"
            # element of findall with >= 2 groups: x[0][k]
            if isinstance(base, ast.Subscript) and isinstance(base.value, ast.Name):
                g = self.regex_groups_of(f, base.value.id)
                if g is not None and g >= 2 and -g <= ival < g:
                    return f"element of a findall result with {g} groups"
            # truthiness guard for index 0 / -1
            if ival in (0, -1):
                for test, truth in self.guards(f, n):
                    if self._truthy_of(test, truth, bs):
                        return f"`{bs}` is tested non-empty before"
                # an element of a local list of runs: every element is appended as a non-empty list and only grows
                owner = None
                if isinstance(base, ast.Subscript) and isinstance(base.value, ast.Name):
                    owner = base.value.id
                elif isinstance(base, ast.Name):
                    p_ = getattr(n, "_parent", None)
                    while p_ is not None and p_ is not f.node and owner is None:
                        its = [(p_.target, p_.iter)] if isinstance(p_, ast.For) else ([(g_.target, g_.iter) for g_ in p_.generators] if isinstance(p_, (ast.ListComp, ast.SetComp, ast.GeneratorExp, ast.DictComp)) else [])
                        for tg_, it_ in its:
                            if isinstance(tg_, ast.Name) and tg_.id == base.id and isinstance(it_, ast.Name):
                                owner = it_.id
                        p_ = getattr(p_, "_parent", None)
                if owner is not None and self._list_of_nonempty_lists(f, owner):
                    return f"`{bs}` is an element of `{owner}`, a local list whose every element is appended as a non-empty list and afterwards only grows"
                if isinstance(base, ast.Name):
                    why = self._param_nonempty(f, base.id)
                    if why:
                        return why
                if isinstance(base, ast.Name):
                    why = self._grown_nonempty(f, base.id)
                    if why:
                        return why
                # split(sep) always yields at least one element
                b2 = base
                if isinstance(b2, ast.Name):
                    for d in self._defs(f, b2.id):
                        b2 = d
                        break
                if isinstance(b2, ast.Call) and isinstance(b2.func, ast.Attribute) and b2.func.attr in ("split", "rsplit") and b2.args and ival == 0:
                    return "str.split(sep) never returns an empty list"
                if isinstance(base, ast.Call) and isinstance(base.func, ast.Attribute) and base.func.attr == "split" and not base.args and ival == 0:
                    recv = src(base.func.value)
                    for test, truth in self.guards(f, n):
                        if self._truthy_of(test, truth, recv) and self._stripped(f, recv):
                            return f"`{recv}` is stripped and non-empty: split() yields a token"
                # loop variable over a truthiness-filtered list (each element non-empty)
                if isinstance(base, ast.Name):
                    why = self._nonempty_elements(f, n, base.id)
                    if why:
                        return why
                    why = self._yields_nonempty(f, n, base.id)
                    if why:
                        return why
            # isinstance tuple with re.findall provenance (findall helpers)
            if f.qualname.startswith("helpers.findall") and isinstance(base, ast.Name):
                for test, truth in self.guards(f, n):
                    if truth and "isinstance" in src(test) and "tuple" in src(test):
                        g_need = ival + 1 if ival >= 0 else -ival
                        if g_need <= 1 or any(self._len_ge(t2, tr2, bs, g_need) for t2, tr2 in self.guards(f, n)):
                            return "a tuple returned by re.findall has one element per group (>= 2), length checked where needed"
        # index variable guarded by `idx < len(x)`
        if isinstance(idx, ast.Name):
            for test, truth in self.guards(f, n):
                if truth and isinstance(test, ast.Compare) and len(test.ops) == 1 and isinstance(test.ops[0], ast.Lt) and src(test.left) == idx.id and src(test.comparators[0]) == f"len({bs})":
                    if self._nonneg_index(f, idx.id):
                        return f"`{idx.id} < len({bs})` holds and {idx.id} counts from >= 0"
        # index variable of `for i in range([a,] len(x))` / `for i, _ in enumerate(x)` inside that loop, x not shrunk there
        if isinstance(idx, ast.Name) and isinstance(base, ast.Name):
            why = self._range_len_index(f, n, idx.id, bs)
            if why:
                return why
        # dict table indexed by the validated platform
        if src(idx) in ("self._platform", "self.platform") and isinstance(base, ast.Name):
            tab = self.ctx.folder.fold(base, f.module)
            if isinstance(tab, dict):
                ok, why = self.fact("platform_range")
                plats = set(self.ctx.folder.const("helpers", "PLATFORMS"))
                if ok and set(tab) >= plats:
                    return "table has a row for every platform init_platform can return (fact platform_range)"
        # d[key] guarded by d.get(key)
        if isinstance(base, ast.Name):
            why = self._get_guard(f, n, bs, idx)
            if why:
                return why
            for test, truth in self.guards(f, n):
                if truth and isinstance(test, ast.Call) and isinstance(test.func, ast.Attribute) and test.func.attr == "get" and src(test.func.value) == bs and test.args and src(test.args[0]) == src(idx):
                    return f"guarded by `{bs}.get({src(idx)})`"
                if truth and isinstance(test, ast.Compare) and len(test.ops) == 1 and isinstance(test.ops[0], ast.IsNot) and isinstance(test.comparators[0], ast.Constant) and test.comparators[0].value is None:
                    g = test.left
                    if isinstance(g, ast.Call) and isinstance(g.func, ast.Attribute) and g.func.attr == "get" and src(g.func.value) == bs and len(g.args) == 1 and src(g.args[0]) == src(idx):
                        return f"guarded by `{bs}.get({src(idx)}) is not None`"
                if isinstance(test, ast.Compare) and isinstance(test.ops[0], ast.In) and truth and src(test.left) == src(idx) and src(test.comparators[0]) == bs:
                    return f"guarded by `{src(idx)} in {bs}`"
        return None

    def _list_of_nonempty_lists(self, f: Func, name: str) -> bool:
        """`name` is a local bound only to `[]`; whatever is appended to it is a non-empty list display; its elements are
        never shrunk, replaced or deleted (they may grow: `name[-1].append(x)`)."""
        if name in f.params:
            return False
        defs = self._defs(f, name)
        if not defs or not all(isinstance(d, ast.List) and not d.elts for d in defs):
            return False
        grows = 0
        for x in own_nodes(f.node):
            if isinstance(x, ast.Call) and isinstance(x.func, ast.Attribute):
                recv = x.func.value
                if isinstance(recv, ast.Name) and recv.id == name:
                    if x.func.attr == "append" and len(x.args) == 1 and isinstance(x.args[0], ast.List) and x.args[0].elts:
                        grows += 1
                    else:
                        return False
                if isinstance(recv, ast.Subscript) and isinstance(recv.value, ast.Name) and recv.value.id == name and x.func.attr not in ("append", "extend", "copy", "index", "count"):
                    return False
            if isinstance(x, ast.Subscript) and isinstance(x.value, ast.Name) and x.value.id == name and isinstance(x.ctx, (ast.Store, ast.Del)):
                return False
            if isinstance(x, ast.Name) and x.id == name and isinstance(x.ctx, ast.Load):
                par = getattr(x, "_parent", None)
                # handed to something that could change it
                if isinstance(par, ast.Call) and x in par.args and not (isinstance(par.func, ast.Name) and par.func.id in ("len", "list", "tuple", "sorted", "enumerate", "reversed", "iter", "bool", "str", "repr")):
                    return False
        return grows > 0

    def _range_len_index(self, f: Func, n: ast.AST, idx: str, bs: str) -> Optional[str]:
        p = getattr(n, "_parent", None)
        loop = None
        while p is not None and p is not f.node:
            if isinstance(p, ast.For):
                t = p.target
                it = p.iter
                if isinstance(t, ast.Name) and t.id == idx and isinstance(it, ast.Call) and src(it.func) == "range" and 1 <= len(it.args) <= 2:
                    lo = it.args[0] if len(it.args) == 2 else None
                    hi = it.args[-1]
                    if src(hi) == f"len({bs})" and (lo is None or (isinstance(lo, ast.Constant) and isinstance(lo.value, int) and lo.value >= 0)):
                        loop = p
                        break
                if isinstance(t, ast.Tuple) and len(t.elts) == 2 and src(t.elts[0]) == idx and isinstance(it, ast.Call) and src(it.func) == "enumerate" and len(it.args) == 1 and src(it.args[0]) == bs:
                    loop = p
                    break
            p = getattr(p, "_parent", None)
        if loop is None:
            return None
        for x in ast.walk(loop):
            if isinstance(x, ast.Name) and x.id in (bs, idx) and isinstance(x.ctx, (ast.Store, ast.Del)) and x is not loop.target and not (isinstance(loop.target, ast.Tuple) and x in loop.target.elts):
                return None
            if isinstance(x, ast.Call) and isinstance(x.func, ast.Attribute) and src(x.func.value) == bs and x.func.attr in ("pop", "remove", "clear"):
                return None
            if isinstance(x, ast.Delete) and any(bs in src(t) for t in x.targets):
                return None
        return f"`{idx}` ranges over the positions of `{bs}` ({src(loop.iter)}) and `{bs}` is not shrunk inside the loop"

    def _get_guard(self, f: Func, n: ast.AST, bs: str, idx: ast.AST) -> Optional[str]:
        for test, truth in self.guards(f, n):
            if truth and isinstance(test, ast.Call) and isinstance(test.func, ast.Attribute) and test.func.attr == "get" and src(test.func.value) == bs and test.args and src(test.args[0]) == src(idx):
                return f"guarded by `{bs}.get({src(idx)})`"
            if truth and isinstance(test, ast.Compare) and len(test.ops) == 1 and isinstance(test.ops[0], ast.IsNot) and isinstance(test.comparators[0], ast.Constant) and test.comparators[0].value is None:
                g = test.left
                if isinstance(g, ast.Call) and isinstance(g.func, ast.Attribute) and g.func.attr == "get" and src(g.func.value) == bs and len(g.args) == 1 and src(g.args[0]) == src(idx):
                    return f"guarded by `{bs}.get({src(idx)}) is not None`"
            if truth and isinstance(test, ast.Compare) and isinstance(test.ops[0], ast.In) and src(test.left) == src(idx) and src(test.comparators[0]) == bs and self._stable_between(f, test, n, src(idx)):
                return f"guarded by `{src(idx)} in {bs}`"
            if not truth and isinstance(test, ast.Compare) and isinstance(test.ops[0], ast.NotIn) and src(test.left) == src(idx) and src(test.comparators[0]) == bs and self._stable_between(f, test, n, src(idx)):
                return f"guarded by `{src(idx)} not in {bs}` being false"
        # `if key not in d: raise/return` earlier in the function (the statement is reachable only when the key is there)
        cfg = self.cfg(f)
        target = cfg.node_containing(n)
        if target is not None:
            cut = set()
            for c in cfg.live:
                if c.kind == "cond" and isinstance(c.ast, ast.Compare) and len(c.ast.ops) == 1 and src(c.ast.left) == src(idx) and src(c.ast.comparators[0]) == bs:
                    if isinstance(c.ast.ops[0], ast.In):
                        cut.add((c.id, "F"))
                    elif isinstance(c.ast.ops[0], ast.NotIn):
                        cut.add((c.id, "T"))
            if cut:
                # cut the edges on which the key is absent: the lookup must become unreachable... (i.e. every path to it
                # passes a test that found the key) -- and neither the key variable nor the dict is re-bound in between
                from .common import reachable_without_edges

                keep = {(c_, l_) for (c_, l_) in cut}
                present_only = reachable_without_edges(cfg, cfg.entry, set())
                absent_reach = self._reach_only_via(cfg, keep)
                if target in present_only and target not in absent_reach and not self._rebinds_between(f, src(idx), bs):
                    return f"every path to the lookup passed a membership test of `{src(idx)}` in `{bs}` that held"
        return None

    def _stable_between(self, f: Func, test: ast.AST, use: ast.AST, name: str) -> bool:
        """The variable that was tested is still the variable that is used: no statement on a way from the test to the
        use binds `name` again (a loop that unpacks a new value into it after the test was made on the first one)."""
        if not name.isidentifier():
            return True
        cfg = self.cfg(f)
        g, t = cfg.node_containing(test), cfg.node_containing(use)
        if g is None or t is None:
            return True
        after = cfg.reachable(g, labels_avoid=("exc",))
        for m in after:
            if m is g or m.ast is None or m.kind not in ("stmt", "for"):
                continue
            if t is not m and t not in cfg.reachable(m, labels_avoid=("exc",)):
                continue
            root = m.ast.target if m.kind == "for" else m.ast
            if m is t and m.kind == "stmt":
                continue
            if any(isinstance(y, ast.Name) and y.id == name and isinstance(y.ctx, ast.Store) for y in ast.walk(root)):
                return False
        return True

    def _reach_only_via(self, cfg: CFG, absent_edges) -> Set[Node]:
        """Nodes reachable from the entry when every membership test is answered 'absent' (present edges removed)."""
        present = set()
        for (cid, lab) in absent_edges:
            present.add((cid, "T" if lab == "F" else "F"))
        from .common import reachable_without_edges

        return reachable_without_edges(cfg, cfg.entry, present)

    def _rebinds_between(self, f: Func, key_src: str, dict_src: str) -> bool:
        """The dict or the key variable is bound more than once in the function (a loop target counts once)."""
        for nm in (dict_src, key_src):
            stores = [x for x in own_nodes(f.node) if isinstance(x, ast.Name) and isinstance(x.ctx, ast.Store) and x.id == nm]
            if len(stores) > 1:
                return True
        return False

    def _len_ge(self, test: ast.AST, truth: bool, expr: str, need: int) -> bool:
        return truth and isinstance(test, ast.Compare) and src(test.left) == f"len({expr})" and isinstance(test.ops[0], ast.GtE) and isinstance(test.comparators[0], ast.Constant) and test.comparators[0].value >= need

    def _defs(self, f: Func, name: str) -> List[ast.AST]:
        out = []
        for n in own_nodes(f.node):
            if isinstance(n, (ast.Assign, ast.AnnAssign)) and n.value is not None:
                t = n.targets[0] if isinstance(n, ast.Assign) else n.target
                if isinstance(t, ast.Name) and t.id == name:
                    out.append(n.value)
            if isinstance(n, ast.NamedExpr) and isinstance(n.target, ast.Name) and n.target.id == name:
                out.append(n.value)
        return out

    def _sources(self, f: Func, name: str) -> List[str]:
        """name and the names it is a per-element image of (items = [s.strip() for s in _items])."""
        out = [name]
        for d in self._defs(f, name):
            if isinstance(d, ast.ListComp) and len(d.generators) == 1 and isinstance(d.generators[0].iter, ast.Name):
                out.append(d.generators[0].iter.id)
        return out

    def _nonempty_guard(self, f: Func, node: ast.AST, name: str) -> bool:
        """A dominating `if not name: return/raise` (the statement is reachable only when name is truthy)."""
        cfg = self.cfg(f)
        target = cfg.node_containing(node)
        if target is None:
            return False
        conds = [c for c in cfg.live if c.kind == "cond" and src(c.ast) == name]
        if not conds:
            return False
        cut = {(c.id, "T") for c in conds}
        return target not in reachable_without_edges(cfg, cfg.entry, cut)

    def _stripped(self, f: Func, name: str) -> bool:
        return any(isinstance(d, ast.Call) and isinstance(d.func, ast.Attribute) and d.func.attr == "strip" and src(d.func.value) == name for d in self._defs(f, name))

    def _nonempty_elements(self, f: Func, node: ast.AST, var: str) -> Optional[str]:
        """var is a loop variable over a list whose every element is truthy ([s for s in xs if s])."""
        p = getattr(node, "_parent", None)
        while p is not None and p is not f.node:
            over = []
            if isinstance(p, ast.For) and src(p.target) == var and isinstance(p.iter, ast.Name):
                over.append(p.iter.id)
            if isinstance(p, (ast.ListComp, ast.SetComp, ast.GeneratorExp, ast.DictComp)):
                over += [g.iter.id for g in p.generators if src(g.target) == var and isinstance(g.iter, ast.Name)]
            for nm in over:
                defs = self._defs(f, nm)
                if defs and isinstance(defs[-1], ast.ListComp) and self._truthy_filtered(defs[-1]):
                    return f"every element of {nm} is non-empty (filtered by truthiness)"
            # elements of str.split() (no separator) are non-empty words
            iters = []
            if isinstance(p, ast.For) and src(p.target) == var:
                iters.append(p.iter)
            if isinstance(p, (ast.ListComp, ast.SetComp, ast.GeneratorExp, ast.DictComp)):
                iters += [g.iter for g in p.generators if src(g.target) == var]
            for it in iters:
                cand = it
                if isinstance(cand, ast.Name):
                    defs = self._defs(f, cand.id)
                    cand = defs[-1] if len(defs) == 1 else None
                while isinstance(cand, ast.Call) and isinstance(cand.func, ast.Name) and cand.func.id in ("list", "tuple") and len(cand.args) == 1 and not cand.keywords:
                    cand = cand.args[0]  # list(filter(None, ...)): the same elements
                if isinstance(cand, ast.Call) and isinstance(cand.func, ast.Attribute) and cand.func.attr == "split" and not cand.args and not cand.keywords:
                    return f"`{var}` is a word of {src(cand)}: str.split() without a separator yields no empty strings"
                if isinstance(cand, ast.Call) and isinstance(cand.func, ast.Name) and cand.func.id == "filter" and len(cand.args) == 2 and isinstance(cand.args[0], ast.Constant) and cand.args[0].value is None:
                    return f"`{var}` is an element of filter(None, ...): only truthy (non-empty) elements get through"
            p = getattr(p, "_parent", None)
        return None

    @staticmethod
    def _truthy_filtered(lc: ast.ListComp) -> bool:
        """`[s for s in xs if s]` or `[t for s in xs if (t := g(s))]`: the element itself is tested for truth."""
        if not isinstance(lc.elt, ast.Name):
            return False
        e = lc.elt.id
        for g in lc.generators:
            for c in g.ifs:
                parts = c.values if isinstance(c, ast.BoolOp) and isinstance(c.op, ast.And) else [c]
                for t in parts:
                    if isinstance(t, ast.Name) and t.id == e and any(src(g2.target) == e for g2 in lc.generators):
                        return True
                    if isinstance(t, ast.NamedExpr) and t.target.id == e:
                        return True
        return False

    def _yields_nonempty(self, f: Func, node: ast.AST, var: str) -> Optional[str]:
        """var is the variable of a loop over g(...) where g is a package generator that only yields values it has
        tested non-empty (or one-element-or-longer list literals)."""
        p = getattr(node, "_parent", None)
        while p is not None and p is not f.node:
            its = []
            if isinstance(p, ast.For) and src(p.target) == var:
                its.append(p.iter)
            if isinstance(p, (ast.ListComp, ast.SetComp, ast.GeneratorExp, ast.DictComp)):
                its += [g.iter for g in p.generators if src(g.target) == var]
            for it in its:
                if not isinstance(it, ast.Call):
                    continue
                for g in self._callees(f, it):
                    ys = [n for n in own_nodes(g.node) if isinstance(n, ast.Yield)]
                    if not ys or any(isinstance(n, ast.YieldFrom) for n in own_nodes(g.node)):
                        continue
                    ok = True
                    for y in ys:
                        v = y.value
                        if isinstance(v, (ast.List, ast.Tuple)) and v.elts:
                            continue
                        if isinstance(v, ast.Name) and any(self._truthy_of(t, tr, v.id) for t, tr in self.guards(g, y)):
                            continue
                        ok = False
                    if ok:
                        return f"`{var}` is yielded by {g.qualname}, which only yields values it has tested non-empty"
            p = getattr(p, "_parent", None)
        return None

    def _tuple_param_arity(self, f: Func, node: ast.AST, var: str) -> Optional[int]:
        """var is the only parameter of a lambda applied element-wise (takewhile/dropwhile/filter/map/key=) to
        enumerate(x) (pairs), zip(a, b, ...) (len = number of arguments) or d.items() (pairs)."""
        p = getattr(node, "_parent", None)
        lam = None
        while p is not None and p is not f.node:
            if isinstance(p, ast.Lambda) and [a.arg for a in p.args.args] == [var] and not p.args.vararg and not p.args.kwarg:
                lam = p
                break
            p = getattr(p, "_parent", None)
        if lam is None:
            return None
        call = getattr(lam, "_parent", None)
        if isinstance(call, ast.keyword):
            call = getattr(call, "_parent", None)
        if not isinstance(call, ast.Call):
            return None
        fn = src(call.func).split(".")[-1]
        seq = None
        if fn in ("takewhile", "dropwhile", "filter", "map", "filterfalse") and len(call.args) == 2 and call.args[0] is lam:
            seq = call.args[1]
        elif fn in ("sorted", "min", "max") and call.args and any(k.arg == "key" and k.value is lam for k in call.keywords):
            seq = call.args[0]
        if isinstance(seq, ast.Call):
            sfn = src(seq.func)
            if sfn == "enumerate" and seq.args:
                return 2
            if sfn == "zip" and seq.args and not any(isinstance(a, ast.Starred) for a in seq.args):
                return len(seq.args)
            if isinstance(seq.func, ast.Attribute) and seq.func.attr == "items" and not seq.args:
                return 2
        return None

    def _nonneg_index(self, f: Func, name: str) -> bool:
        for n in own_nodes(f.node):
            if isinstance(n, ast.For) and isinstance(n.iter, ast.Call) and src(n.iter.func) in ("enumerate", "range"):
                tg = n.target.elts[0] if isinstance(n.target, ast.Tuple) else n.target
                if src(tg) == name:
                    return True
        return False

    # ---- key subscripts (R20.2)
    def key_subscript(self, f: Func, n: ast.Subscript, key: str) -> Optional[str]:  # noqa: C901
        base = n.value
        # direct call result: parse_action(line)["action"]
        producers: List[Func] = []
        if isinstance(base, ast.Call):
            producers = self._callees(f, base)
            origin = base
        elif isinstance(base, ast.Name):
            origin = None
            for d in self._defs(f, base.id):
                if isinstance(d, ast.Call):
                    producers += self._callees(f, d)
                    origin = d
                elif isinstance(d, ast.Dict):
                    if any(isinstance(k, ast.Constant) and k.value == key for k in d.keys):
                        return "key of the dict literal bound to this local"
                elif isinstance(d, ast.Call) and src(d.func) == "dict":
                    pass
            for d in self._defs(f, base.id):
                if isinstance(d, ast.Call) and src(d.func) == "dict" and any(k.arg == key for k in d.keywords):
                    return "key of the dict(...) bound to this local"
            # named groups of a compiled pattern: d = {k: g(v) for k, v in m.groupdict(...).items()} / m.groupdict(...)
            for d in self._defs(f, base.id):
                gd = None
                if isinstance(d, ast.DictComp) and len(d.generators) == 1 and isinstance(d.generators[0].target, ast.Tuple) and len(d.generators[0].target.elts) == 2 and src(d.key) == src(d.generators[0].target.elts[0]) and not d.generators[0].ifs:
                    it = d.generators[0].iter
                    if isinstance(it, ast.Call) and isinstance(it.func, ast.Attribute) and it.func.attr == "items" and isinstance(it.func.value, ast.Call) and isinstance(it.func.value.func, ast.Attribute) and it.func.value.func.attr == "groupdict":
                        gd = it.func.value
                elif isinstance(d, ast.Call) and isinstance(d.func, ast.Attribute) and d.func.attr == "groupdict":
                    gd = d
                if gd is not None:
                    from .c01 import compiled_grammar

                    cg = compiled_grammar(self.ctx, f)
                    if cg is not None and cg[1] is not None and src(gd.func.value) == cg[1]:
                        try:
                            names = set(_re.compile(cg[0]).groupindex)
                        except _re.error:
                            names = set()
                        if key in names:
                            return f"`{base.id}` has one key per named group of the pattern matched into `{cg[1]}` ({key!r} is one of them)"
            if not producers and base.id in f.params:
                return self._param_key(f, base.id, key)
            # loop variable over a list of dicts produced by a package function
            if not producers:
                for lp in own_nodes(f.node):
                    if isinstance(lp, (ast.For, ast.comprehension)) and src(lp.target) == base.id:
                        why = self._list_elem_key(f, lp.iter, key)
                        if why:
                            return why
        for g in producers:
            ks = self._returned_keys(g)
            if ks is None:
                return None
            if key not in ks:
                return None
        if producers:
            return f"key of every non-empty dict {', '.join(sorted(g.qualname for g in producers))} returns" + ("" if not self._may_return_empty(producers) else "; the empty result is guarded by truthiness" if self._truthy_guarded(f, n, base) else "")
        return None

    def _list_elem_key(self, f: Func, it: ast.AST, key: str, depth: int = 0) -> Optional[str]:
        """Every element of the list `it` is a dict that has `key`."""
        if depth > 5 or not isinstance(it, ast.Name):
            return None
        if it.id in f.params and not self._defs(f, it.id):
            return self._param_key(f, it.id, key, element=True)
        ks = self._local_accumulator_keys(f, it.id)
        if ks is not None and key in ks:
            return f"every dict appended to {it.id} in {f.qualname} is built with key {key!r}"
        for d in self._defs(f, it.id):
            if isinstance(d, ast.Call):
                for g in self._callees(f, d):
                    ks = self._element_keys(g)
                    if ks is not None and key in ks:
                        return f"element of the list {g.qualname} returns; every element is built with key {key!r}"
            if isinstance(d, ast.ListComp) and len(d.generators) == 1 and src(d.elt) == src(d.generators[0].target):
                return self._list_elem_key(f, d.generators[0].iter, key, depth + 1)
        return None

    def _dict_values(self, g: Func, d_: str, env: Dict[str, ast.AST]) -> Optional[List[ast.AST]]:
        """The expressions stored as values of the local dict `d_`, which starts empty and is filled only by
        `d_.setdefault(k, <record>)` / `d_[k] = <record>` (None: filled some other way)."""
        init = env.get(d_)
        if not (isinstance(init, ast.Dict) and not init.keys or isinstance(init, ast.Call) and src(init.func) == "dict" and not init.args and not init.keywords):
            return None
        values: List[ast.AST] = []
        for m in own_nodes(g.node):
            if isinstance(m, ast.Call) and isinstance(m.func, ast.Attribute) and src(m.func.value) == d_:
                if m.func.attr == "setdefault" and len(m.args) == 2:
                    values.append(m.args[1])
                elif m.func.attr not in ("values", "get", "items", "keys"):
                    return None
            if isinstance(m, ast.Assign) and any(isinstance(t, ast.Subscript) and src(t.value) == d_ for t in m.targets):
                values.append(m.value)
        return values

    @staticmethod
    def _values_call(a: ast.AST) -> Optional[str]:
        """`D.values()`, `list(D.values())`, `[*D.values()]` of a local dict D: its name."""
        if isinstance(a, ast.Call) and src(a.func) in ("list", "tuple") and len(a.args) == 1:
            a = a.args[0]
        if isinstance(a, ast.List) and len(a.elts) == 1 and isinstance(a.elts[0], ast.Starred):
            a = a.elts[0].value
        if isinstance(a, ast.Call) and isinstance(a.func, ast.Attribute) and a.func.attr == "values" and isinstance(a.func.value, ast.Name) and not a.args:
            return a.func.value.id
        return None

    def _collected_values(self, g: Func, acc: str, env: Dict[str, ast.AST]) -> Optional[list]:
        """The expressions whose values end up as elements of the local list `acc` (None: a way of filling it that is not
        read).  An element ("elements", h) stands for: every element of the list the package function h returns."""
        values: list = []
        for n in own_nodes(g.node):
            if isinstance(n, ast.Call) and isinstance(n.func, ast.Attribute) and n.func.attr == "append" and src(n.func.value) == acc and n.args:
                values.append(n.args[0])
            elif isinstance(n, ast.Call) and isinstance(n.func, ast.Attribute) and n.func.attr == "extend" and src(n.func.value) == acc and n.args:
                a = n.args[0]
                d_ = self._values_call(a)
                if d_ is not None:
                    vs = self._dict_values(g, d_, env)
                    if vs is None:
                        return None
                    values.extend(vs)
                elif isinstance(a, ast.Call) and self._callees(g, a):
                    values.extend(("elements", h_) for h_ in self._callees(g, a))
                else:
                    return None
        return values

    def _local_accumulator_keys(self, g: Func, acc: str, depth: int = 0) -> Optional[Set[str]]:
        env: Dict[str, ast.AST] = {}
        for n in own_nodes(g.node):
            if isinstance(n, (ast.Assign, ast.AnnAssign)) and n.value is not None:
                t = n.targets[0] if isinstance(n, ast.Assign) else n.target
                if isinstance(t, ast.Name):
                    env[t.id] = n.value
        ks_all: List[Set[str]] = []
        values = self._collected_values(g, acc, env)
        if values is None:
            return None
        if True:
            for v in values:
                if isinstance(v, tuple):
                    sub_e = self._element_keys(v[1], depth + 1) if depth < 4 else None
                    if sub_e is None:
                        return None
                    ks_all.append(sub_e)
                    continue
                v = resolve_local(v, env)
                if isinstance(v, ast.Call) and src(v.func) == "dict":
                    ks_all.append({k.arg for k in v.keywords if k.arg})
                elif isinstance(v, ast.Dict):
                    ks_all.append({k.value for k in v.keys if isinstance(k, ast.Constant)})
                elif isinstance(v, ast.Call) and self._callees(g, v):
                    # the record is built by a helper: keys of every dict it returns
                    sub = [self._returned_keys(h_) for h_ in self._callees(g, v)]
                    if any(x is None for x in sub):
                        return None
                    ks_all.extend(sub)
                else:
                    return None
        if not ks_all:
            return None
        out = set(ks_all[0])
        for k in ks_all[1:]:
            out &= k
        return out

    def _may_return_empty(self, producers: List[Func]) -> bool:
        for g in producers:
            for r in own_nodes(g.node):
                if isinstance(r, ast.Return) and isinstance(r.value, ast.Dict) and not r.value.keys:
                    return True
        return False

    def _truthy_guarded(self, f: Func, n: ast.AST, base: ast.AST) -> bool:
        bs = src(base)
        return any(self._truthy_of(t, tr, bs) for t, tr in self.guards(f, n)) or self._nonempty_guard(f, n, bs)

    def _callees(self, f: Func, call: ast.Call) -> List[Func]:
        out = []
        for e in self.ctx.cg.all_edges(f):
            if e.site is call and isinstance(e.target, Func) and e.kind == "call" and not e.weak and e.target.parent is None:
                if e.target not in out:
                    out.append(e.target)
        return out

    def _returned_keys(self, g: Func, depth: int = 0) -> Optional[Set[str]]:
        """Keys present in every non-empty dict g returns."""
        if g.name == "data" and g.cls is not None:
            return set(exported(self.ctx, g.cls))
        keysets: List[Set[str]] = []
        from .normalise import normalised

        g = normalised(self.ctx, g, "tailcalls")  # a shared builder the function ends in is read with its arguments
        for p in function_paths(self.ctx.cfg(g)):
            if p.raises or p.ret is None:
                continue
            r = resolve_local(p.ret, p.env)
            ks: Optional[Set[str]] = None
            if isinstance(r, ast.DictComp) and len(r.generators) == 1 and not r.generators[0].ifs and isinstance(r.generators[0].target, ast.Tuple) and len(r.generators[0].target.elts) == 2 and src(r.key) == src(r.generators[0].target.elts[0]):
                # {k: f(v) for k, v in zip((<constant keys>), <regex tuple>)}: one key per group, when there are enough groups
                it = r.generators[0].iter
                if isinstance(it, ast.Call) and src(it.func) == "zip" and len(it.args) == 2 and isinstance(it.args[1], ast.Name):
                    kv = self.ctx.folder.fold(it.args[0], g.module)
                    ng = self.regex_groups_of(g, it.args[1].id)
                    if isinstance(kv, (tuple, list)) and all(isinstance(x, str) for x in kv) and ng is not None and ng >= len(kv):
                        ks = set(kv)
            if isinstance(r, ast.DictComp) and len(r.generators) == 1 and not r.generators[0].ifs and isinstance(r.generators[0].target, ast.Tuple) and len(r.generators[0].target.elts) == 2 and src(r.key) == src(r.generators[0].target.elts[1]):
                # {key: items[i] for i, key in enumerate((<constant keys>))}: every key of the constant
                it = r.generators[0].iter
                if isinstance(it, ast.Call) and src(it.func) == "enumerate" and len(it.args) == 1 and not it.keywords:
                    kv = self.ctx.folder.fold(it.args[0], g.module)
                    if isinstance(kv, (tuple, list)) and kv and all(isinstance(x, str) for x in kv):
                        ks = set(kv)
            if isinstance(r, ast.Call) and src(r.func) == "dict" and len(r.args) == 1 and not r.keywords and isinstance(r.args[0], ast.Call) and src(r.args[0].func) == "zip" and len(r.args[0].args) == 2 and isinstance(r.args[0].args[1], ast.Name):
                # dict(zip((<constant keys>), fields)) with `*fields, tail = (s.strip() for s in <regex tuple>)`: one key per
                # leading group when the counts agree
                kv = self.ctx.folder.fold(r.args[0].args[0], g.module, self.ctx.folder.local_env(g))
                vals = r.args[0].args[1].id
                n_vals = None
                for st_ in own_nodes(g.node):
                    if isinstance(st_, ast.Assign) and len(st_.targets) == 1 and isinstance(st_.targets[0], ast.Tuple) and isinstance(st_.value, (ast.GeneratorExp, ast.ListComp)) and len(st_.value.generators) == 1 and isinstance(st_.value.generators[0].iter, ast.Name):
                        elts = st_.targets[0].elts
                        stars = [e for e in elts if isinstance(e, ast.Starred)]
                        if len(stars) == 1 and isinstance(stars[0].value, ast.Name) and stars[0].value.id == vals:
                            ng = self.regex_groups_of(g, st_.value.generators[0].iter.id)
                            if ng is not None:
                                n_vals = ng - (len(elts) - 1)
                if isinstance(kv, (tuple, list)) and kv and all(isinstance(x, str) for x in kv) and n_vals is not None and n_vals >= len(kv):
                    ks = set(kv)
                    # ... plus what `<result>.update(<package function>(...))` adds on this path
                    if isinstance(p.ret, ast.Name):
                        for nd_, _l in p.nodes:
                            if nd_.kind == "stmt" and isinstance(nd_.ast, ast.Expr) and isinstance(nd_.ast.value, ast.Call) and isinstance(nd_.ast.value.func, ast.Attribute) and nd_.ast.value.func.attr == "update" and src(nd_.ast.value.func.value) == p.ret.id and len(nd_.ast.value.args) == 1 and isinstance(nd_.ast.value.args[0], ast.Call) and depth < 3:
                                for h_ in self._callees(g, nd_.ast.value.args[0]):
                                    more = self._returned_keys(h_, depth + 1)
                                    if more:
                                        ks |= more
            elif isinstance(r, ast.Call) and src(r.func) == "dict":
                ks = {k.arg for k in r.keywords if k.arg}
            elif isinstance(r, ast.Dict):
                if not r.keys:
                    continue  # empty result: consumers guard by truthiness
                ks = {k.value for k in r.keys if isinstance(k, ast.Constant)}
            if ks is None:
                return None
            keysets.append(ks)
        if not keysets:
            return None
        out = set(keysets[0])
        for k in keysets[1:]:
            out &= k
        return out

    def _element_keys(self, g: Func, depth: int = 0) -> Optional[Set[str]]:
        """Keys of every dict appended to the list g returns."""
        ks_all: List[Set[str]] = []
        rets = [r.value for r in own_nodes(g.node) if isinstance(r, ast.Return) and r.value is not None]
        env: Dict[str, ast.AST] = {}
        for n in own_nodes(g.node):
            if isinstance(n, (ast.Assign, ast.AnnAssign)) and n.value is not None:
                t = n.targets[0] if isinstance(n, ast.Assign) else n.target
                if isinstance(t, ast.Name):
                    env[t.id] = n.value
        if len(rets) == 1 and self._values_call(rets[0]) is not None:
            values = self._dict_values(g, self._values_call(rets[0]), env)  # return list(D.values())
        elif rets and all(isinstance(r, ast.Name) for r in rets):
            values = self._collected_values(g, rets[0].id, env)
        else:
            return None
        if values is None:
            return None
        if True:
            for v in values:
                if isinstance(v, tuple):
                    sub_e = self._element_keys(v[1], depth + 1) if depth < 4 else None
                    if sub_e is None:
                        return None
                    ks_all.append(sub_e)
                    continue
                v = resolve_local(v, env)
                if isinstance(v, ast.Call) and src(v.func) == "dict":
                    ks_all.append({k.arg for k in v.keywords if k.arg})
                elif isinstance(v, ast.Dict):
                    ks_all.append({k.value for k in v.keys if isinstance(k, ast.Constant)})
                elif isinstance(v, ast.Call) and self._callees(g, v):
                    # the record is built by a helper: keys of every dict it returns
                    sub = [self._returned_keys(h_) for h_ in self._callees(g, v)]
                    if any(x is None for x in sub):
                        return None
                    ks_all.extend(sub)
                else:
                    return None
        if not ks_all:
            return None
        out = set(ks_all[0])
        for k in ks_all[1:]:
            out &= k
        return out

    def _param_key(self, f: Func, param: str, key: str, element: bool = False) -> Optional[str]:
        """Every caller passes a dict (or a list of dicts) that has the key."""
        callers = []
        for g in self.ctx.prog.funcs:
            for e in self.ctx.cg.all_edges(g):
                if e.target is f and isinstance(e.site, ast.Call) and not e.weak:
                    callers.append((g, e.site))
        if not callers:
            return None
        reasons = []
        for g, call in callers:
            gp = f.params
            off = 1 if f.is_bound else 0
            arg = None
            if param in gp:
                i = gp.index(param) - off
                if 0 <= i < len(call.args):
                    arg = call.args[i]
            for k in call.keywords:
                if k.arg == param:
                    arg = k.value
            if arg is None or not isinstance(arg, ast.Name):
                return None
            ok = False
            if element:
                ks0 = self._local_accumulator_keys(g, arg.id)
                if ks0 is not None and key in ks0:
                    ok = True
                    reasons.append(f"{g.qualname}:{arg.id}")
            for d in self._defs(g, arg.id):
                if isinstance(d, ast.Call):
                    for h_ in self._callees(g, d):
                        ks = self._element_keys(h_) if element else self._returned_keys(h_)
                        if ks is not None and key in ks:
                            ok = True
                            reasons.append(h_.qualname)
            if not ok and arg.id in g.params:
                sub = self._param_key(g, arg.id, key, element)
                if sub:
                    ok = True
                    reasons.append(sub)
            if not ok:
                return None
        return f"parameter {param}: every caller passes {'a list of dicts' if element else 'a dict'} built with key {key!r} ({', '.join(sorted(set(reasons)))[:120]})"

    # ---- facts (assume/guarantee with checkers)
    def fact(self, name: str) -> Tuple[bool, str]:
        if name in self._facts:
            return self._facts[name]
        res = getattr(self, f"_fact_{name}")()
        self._facts[name] = res
        return res

    def _fact_platform_range(self) -> Tuple[bool, str]:
        from .c02 import fact_platform_range

        sub = Report("C20")
        sub.rule("fact")
        fact_platform_range(self.ctx, sub)
        return (not sub.violations, "init_platform returns only PLATFORMS members and is the only source of _platform")

    def _fact_port_items_nonempty(self) -> Tuple[bool, str]:
        """_line__items_to_ints raises on empty input before returning; _items_to_ports is only fed its result."""
        ctx = self.ctx
        li = items_to_ints_func(ctx)
        ok1 = False
        for p in function_paths(ctx.cfg(li)):
            if p.raises and any(src(t) == li.params[1] and not tr for t, tr in p.atoms):
                ok1 = True
        from .normalise import normalised as _norm

        fwd = ctx.func("Port._items_to_ports")
        ok2 = True
        for g in ctx.prog.funcs:
            for e in ctx.cg.all_edges(g):
                if e.target is fwd and isinstance(e.site, ast.Call):
                    arg = e.site.args[0] if e.site.args else None
                    good = False
                    if isinstance(arg, ast.Name):
                        for d in self._defs(g, arg.id):
                            if isinstance(d, ast.Call) and src(d.func).endswith("_line__items_to_ints"):
                                good = True
                    ok2 = ok2 and good
        return (ok1 and ok2, "Port._line__items_to_ints raises on an empty operand list and is the only producer of the argument of _items_to_ports")

    def _bucket_key_rule(self, f: Func, use: ast.Subscript) -> Optional[str]:
        """`D[k]` with a running key: k's value is a key of D when the lookup runs, because D is created/initialised with
        k's first value and every re-binding of k is followed by `if <new value> not in D: D[k] = ...`."""
        if not (isinstance(use.slice, ast.Name) and isinstance(use.value, ast.Name)):
            return None
        ctx = self.ctx
        cfg = ctx.cfg(f)
        d, k = use.value.id, use.slice.id
        if d in f.params or k in f.params:
            return None
        loops = [n for n in cfg.live if n.kind == "for"]
        stores = [n for n in cfg.live if n.kind == "stmt" and isinstance(n.ast, ast.Assign) and isinstance(n.ast.targets[0], ast.Subscript) and src(n.ast.targets[0].value) == d and src(n.ast.targets[0].slice) == k]
        assigns = [n for n in cfg.live if n.kind == "stmt" and isinstance(n.ast, (ast.Assign, ast.AnnAssign)) and getattr(n.ast, "value", None) is not None and src(n.ast.targets[0] if isinstance(n.ast, ast.Assign) else n.ast.target) == k]
        use_node = cfg.node_containing(use)
        if use_node is None or not assigns:
            return None
        # D must not shrink or be re-bound
        for x in own_nodes(f.node):
            if isinstance(x, ast.Call) and isinstance(x.func, ast.Attribute) and src(x.func.value) == d and x.func.attr in ("pop", "popitem", "clear"):
                return None
            if isinstance(x, ast.Delete) and any(d in src(t) for t in x.targets):
                return None
        d_binds = [n for n in cfg.live if n.kind == "stmt" and isinstance(n.ast, (ast.Assign, ast.AnnAssign)) and src(n.ast.targets[0] if isinstance(n.ast, ast.Assign) else n.ast.target) == d]
        if len(d_binds) != 1:
            return None

        def in_loop(n: Node) -> bool:
            return any(lp in cfg.reachable(n) and n in cfg.reachable(lp) for lp in loops)

        first = assigns[0]
        if in_loop(first) or not cfg.dominates(first, use_node):
            return None
        init_ok = any(cfg.dominates(s_, use_node) and not in_loop(s_) and cfg.dominates(first, s_) for s_ in stores)
        lit = d_binds[0].ast.value
        if isinstance(lit, ast.Dict) and not in_loop(d_binds[0]) and cfg.dominates(d_binds[0], use_node):
            v0 = ctx.folder.fold(first.ast.value, f.module)
            for kk in lit.keys:
                if kk is None:
                    continue
                if src(kk) == k and cfg.dominates(first, d_binds[0]):
                    init_ok = True
                kv = ctx.folder.fold(kk, f.module)
                if known(kv) and known(v0) and kv == v0 and isinstance(kk, ast.Constant):
                    init_ok = True
        if not init_ok:
            return None
        for a_ in assigns[1:]:
            good = False
            for c in cfg.live:
                if c.kind == "cond" and isinstance(c.ast, ast.Compare) and len(c.ast.ops) == 1 and isinstance(c.ast.ops[0], ast.NotIn) and src(c.ast.comparators[0]) == d and cfg.dominates(a_, c):
                    if src(c.ast.left) not in (k, src(a_.ast.value)):
                        continue
                    t = [s2 for lab, s2 in c.succ if lab == "T"]
                    if t and any(t[0] is s_ for s_ in stores):
                        good = True
            # ... or the statement right after the re-binding is `D.setdefault(k, ...)`: the key is there afterwards
            nxt = [s2 for lab, s2 in a_.succ if lab != "exc"]
            if len(nxt) == 1 and nxt[0].kind == "stmt" and isinstance(nxt[0].ast, ast.Expr) and isinstance(nxt[0].ast.value, ast.Call):
                c2 = nxt[0].ast.value
                if isinstance(c2.func, ast.Attribute) and c2.func.attr == "setdefault" and src(c2.func.value) == d and c2.args and src(c2.args[0]) in (k, src(a_.ast.value)):
                    good = True
            if not good:
                return None
        return f"`{k}` is a key of `{d}` from the start and whenever it is re-bound a membership test stores the new value first"

    def _fact_single_group_checked(self) -> Tuple[bool, str]:
        """In _add_addgr_to_aces the list indexed with [0] was filtered by _check_addgr (exactly one group of that name)."""
        ctx = self.ctx
        f = ctx.func("functions._add_addgr_to_aces")
        chk = ctx.func("functions._check_addgr")
        ok_chk = False
        for p in function_paths(ctx.cfg(chk)):
            if not p.raises and isinstance(p.ret, ast.Constant) and p.ret.value is True:
                # reaching `return True` requires count != 0 and count == 1
                if any("count" in src(t) for t, tr in p.atoms):
                    ok_chk = True
        filt = any(isinstance(n, ast.ListComp) and any("_check_addgr" in src(c) for g in n.generators for c in g.ifs) for n in own_nodes(f.node))
        return (ok_chk and filt, "_check_addgr returns True only for exactly one group of that name and filters the addresses before the lookup")

    def _fact_indent_parser_indices(self) -> Tuple[bool, str]:
        """config_l has a sentinel appended; loops over range(len) stop one before the end before reading [i + 1]."""
        ctx = self.ctx
        pm = ctx.func("ConfigParser._parse_mdic")
        gi = ctx.func("ConfigParser._get_indented_dic")
        sentinel = any(isinstance(n, ast.Call) and isinstance(n.func, ast.Attribute) and n.func.attr == "append" and src(n.func.value) == "config_l" for n in own_nodes(pm.node))
        ok = sentinel
        for f in (pm, gi):
            cfg = ctx.cfg(f)
            reads = [n for n in own_nodes(f.node) if isinstance(n, ast.Subscript) and src(n.value) == "config_l" and src(n.slice) == "i + 1"]
            for r in reads:
                node = cfg.node_containing(r)
                # a break-guard comparing i with i_max must dominate
                guards = [c for c in cfg.live if c.kind == "cond" and "i_max" in src(c.ast) and cfg.dominates(c, node)]
                # ... or the loop itself stops one short: `for i in range(len(config_l) - 1)` and `i` is not re-bound inside
                short = False
                p_ = getattr(r, "_parent", None)
                while p_ is not None and p_ is not f.node:
                    if isinstance(p_, ast.For) and isinstance(p_.target, ast.Name) and p_.target.id == "i" and isinstance(p_.iter, ast.Call) and src(p_.iter.func) == "range" and len(p_.iter.args) == 1:
                        b_ = p_.iter.args[0]
                        if isinstance(b_, ast.BinOp) and isinstance(b_.op, ast.Sub) and src(b_.left) == "len(config_l)" and isinstance(b_.right, ast.Constant) and isinstance(b_.right.value, int) and b_.right.value >= 1:
                            if not any(isinstance(x, ast.Name) and x.id == "i" and isinstance(x.ctx, ast.Store) and x is not p_.target for x in ast.walk(p_)):
                                short = True
                    p_ = getattr(p_, "_parent", None)
                ok = ok and (bool(guards) or short)
        return (ok, "the indentation parser appends an END sentinel and leaves its loops before reading past it")

    # ---- attribute on Optional
    def optional_attr(self, f: Func, n: ast.Attribute) -> Optional[str]:
        bs = src(n.value)
        for test, truth in self.guards(f, n):
            ts = src(test)
            if truth and (ts == bs or ts == f"isinstance({bs}," or ts.startswith(f"isinstance({bs}, ")):
                return f"guarded by `{ts[:50]}`"
            if not truth and isinstance(test, ast.Compare) and isinstance(test.ops[0], ast.Is) and src(test.left) == bs:
                return "guarded by `is None` test"
            if truth and isinstance(test, ast.Compare) and isinstance(test.ops[0], ast.IsNot) and src(test.left) == bs:
                return "guarded by `is not None` test"
            while isinstance(test, ast.NamedExpr):
                if truth and src(test.target) == bs:
                    return "walrus-guarded"
                test = test.value
        # the attribute was just assigned a constructor result in this function (and nothing else re-assigns it)
        cfg = self.cfg(f)
        node = cfg.node_containing(n)
        if node is not None and isinstance(n.value, ast.Attribute):
            stores = [m for m in cfg.live if m.kind == "stmt" and isinstance(m.ast, (ast.Assign, ast.AnnAssign)) and any(src(t) == bs for t in (m.ast.targets if isinstance(m.ast, ast.Assign) else [m.ast.target]))]
            def built(v: ast.AST) -> bool:
                # a constructor / call result, directly or through a local that was bound once to one
                if isinstance(v, ast.Call):
                    return True
                if isinstance(v, ast.Name):
                    ds = [m2.ast.value for m2 in cfg.live if m2.kind == "stmt" and isinstance(m2.ast, (ast.Assign, ast.AnnAssign)) and getattr(m2.ast, "value", None) is not None and any(isinstance(t, ast.Name) and t.id == v.id for t in (m2.ast.targets if isinstance(m2.ast, ast.Assign) else [m2.ast.target]))]
                    return len(ds) == 1 and isinstance(ds[0], ast.Call) and v.id not in f.params
                return False

            if stores and all(built(m.ast.value) for m in stores) and any(cfg.dominates(m, node) and m is not node for m in stores):
                return f"`{bs}` was assigned a constructor result earlier in this function"
            # ... or by a private helper called earlier on every path, which stores a constructor result in it on all of its
            # normal paths (`self._line__store(kind, text)`)
            if not stores and f.cls is not None and src(n.value.value) == "self":
                attr = n.value.attr
                for m in cfg.live:
                    if m.kind == "stmt" and m.ast is not None and m is not node and cfg.dominates(m, node):
                        for c in ast.walk(m.ast):
                            if isinstance(c, ast.Call) and isinstance(c.func, ast.Attribute) and src(c.func.value) == "self" and c.func.attr.startswith("_"):
                                hm = f.cls.lookup_method(c.func.attr)
                                if hm is None:
                                    continue
                                from .c17 import _must_assign

                                if attr not in _must_assign(self.ctx, hm, f.cls, {}):
                                    continue
                                henv = {}
                                for y in own_nodes(hm.node):
                                    if isinstance(y, (ast.Assign, ast.AnnAssign)) and getattr(y, "value", None) is not None:
                                        t0 = y.targets[0] if isinstance(y, ast.Assign) else y.target
                                        if isinstance(t0, ast.Name):
                                            henv.setdefault(t0.id, []).append(y.value)
                                vals = []
                                for y in own_nodes(hm.node):
                                    if isinstance(y, ast.Assign):
                                        for t0 in y.targets:
                                            if isinstance(t0, (ast.Tuple, ast.List)) and isinstance(y.value, (ast.Tuple, ast.List)) and len(t0.elts) == len(y.value.elts):
                                                vals += [v_ for e_, v_ in zip(t0.elts, y.value.elts) if src(e_) == f"self.{attr}"]
                                            elif src(t0) == f"self.{attr}":
                                                vals.append(y.value)
                                def hbuilt(v: ast.AST) -> bool:
                                    if isinstance(v, ast.Call):
                                        return True
                                    return isinstance(v, ast.Name) and v.id not in hm.params and len(henv.get(v.id, [])) == 1 and isinstance(henv[v.id][0], ast.Call)
                                if vals and all(hbuilt(v) for v in vals):
                                    return f"`{bs}` is assigned a constructor result by {hm.qualname}, called earlier on every path"
        # raise-guard: `if not isinstance(x, T): raise` dominating
        if node is not None:
            conds = [c for c in cfg.live if c.kind == "cond" and (src(c.ast).startswith(f"isinstance({bs}, ") or src(c.ast) == bs)]
            if conds and node not in reachable_without_edges(cfg, cfg.entry, {(c.id, "T") for c in conds}):
                return "reachable only after an isinstance/truthiness test held"
        return None


def fact_for_site(f: Func, n: ast.Subscript) -> Optional[str]:
    """Which assume/guarantee fact (checked by Discharger._fact_*) a lookup relies on.  Sites are recognised by role
    (which parameter is indexed, what kind of expression), not by the spelling of local names."""
    q = f.qualname
    base, idx = n.value, n.slice
    const_idx = isinstance(idx, ast.Constant) or (isinstance(idx, ast.UnaryOp) and isinstance(idx.operand, ast.Constant))
    if q == "Port._items_to_ports" and isinstance(base, ast.Name) and len(f.params) > 1 and base.id == f.params[1] and const_idx and src(idx) in ("0", "-1"):
        return "port_items_nonempty"
    if q == "functions._add_addgr_to_aces" and isinstance(base, ast.ListComp) and src(idx) == "0":
        return "single_group_checked"
    if q in ("ConfigParser._parse_mdic", "ConfigParser._get_indented_dic") and isinstance(base, ast.Name) and base.id in f.params and any(isinstance(x, ast.Name) for x in ast.walk(idx)):
        return "indent_parser_indices"  # the list of config lines indexed by a running line index
    return None




def r20_1b(ctx: Ctx, rep: Report, sl: Set[Func]) -> None:
    rep.rule("R20.1i")
    dis = Discharger(ctx, rep)
    n_sub = 0
    for f in sorted(sl, key=lambda x: x.qualname):
        for n in own_nodes(f.node):
            if isinstance(n, ast.Subscript) and isinstance(n.ctx, ast.Load) and not isinstance(n.slice, ast.Slice):
                par = getattr(n, "_parent", None)
                if isinstance(par, ast.AnnAssign) and par.annotation is n:
                    continue
                if isinstance(par, ast.Subscript) and par.value is n and isinstance(n.slice, ast.Constant) and isinstance(n.slice.value, int) and isinstance(n.value, ast.Name):
                    # x[0][k]: the inner x[0] is judged on its own as well
                    pass
                # a lookup written inside a local function is judged once, as a statement of that function
                from ..model import in_nested_def as _in_nested

                if _in_nested(n, f.node) and any(g_.parent is f for g_ in sl):
                    continue
                n_sub += 1
                rep.instance()
                why = dis.subscript(f, n)
                if why is None:
                    why = dis._bucket_key_rule(f, n)
                if why is None and f.parent is not None and isinstance(n.slice, ast.Name) and n.slice.id in f.params and isinstance(n.value, ast.Name) and n.value.id not in f.params:
                    # `def build(key): ... table[key]` inside a method, called with constant keys: the lookup is judged where
                    # the local function is called, with each constant, against the enclosing function's `table`
                    par_f = f.parent
                    sites_ = [c_ for c_ in own_nodes(par_f.node) if isinstance(c_, ast.Call) and isinstance(c_.func, ast.Name) and c_.func.id == f.name]
                    escapes = any(isinstance(x_, ast.Name) and x_.id == f.name and isinstance(x_.ctx, ast.Load) and not (isinstance(getattr(x_, "_parent", None), ast.Call) and getattr(x_, "_parent").func is x_) for x_ in own_nodes(par_f.node))
                    whys_ = []
                    for c_ in sites_:
                        a_ = dis._arg_for(f, c_, n.slice.id)
                        if not (isinstance(a_, ast.Constant) and isinstance(a_.value, (str, int))):
                            whys_ = [None]
                            break
                        fake = ast.Subscript(value=ast.Name(id=n.value.id, ctx=ast.Load()), slice=ast.Constant(value=a_.value), ctx=ast.Load())
                        ast.copy_location(fake, c_)
                        ast.fix_missing_locations(fake)
                        fake._parent = getattr(c_, "_parent", None)  # type: ignore[attr-defined]
                        fake.value._parent = fake  # type: ignore[attr-defined]
                        fake.slice._parent = fake  # type: ignore[attr-defined]
                        whys_.append(dis.subscript(par_f, fake))
                    if sites_ and not escapes and all(whys_):
                        why = f"`{f.name}` is only called with constant keys ({len(sites_)} sites) and each lookup succeeds where it is called: {whys_[0]}"
                if why is None:
                    fk = fact_for_site(f, n)
                    if fk:
                        ok, text = dis.fact(fk)
                        why = f"fact {fk}: {text}" if ok else None
                        if not ok:
                            rep.violation(f.qualname, snippet(n), f"this lookup relies on the fact `{fk}` ({text}), which no longer holds: IndexError/KeyError can escape", where(f, n))
                            continue
                if why is None:
                    kind = "KeyError" if isinstance(n.slice, ast.Constant) and isinstance(n.slice.value, str) else "IndexError/KeyError"
                    rep.violation(f.qualname, snippet(n), f"nothing guarantees that this lookup succeeds: {kind} (not a documented error) can escape to the caller", where(f, n), inp="empty / truncated input reaching this statement")
                else:
                    rep.ok(f"{f.qualname}: {snippet(n, 50)}", why, where=where(f, n))
    rep.floor(60, "subscripts in the constructors' slice")
    # attribute access on possibly-None values
    rep.rule("R20.1o")
    n_opt = 0
    for f in sorted(sl, key=lambda x: x.qualname):
        for n in own_nodes(f.node):
            if isinstance(n, ast.Attribute) and isinstance(n.ctx, ast.Load):
                t = ctx.types.expr_type(n.value, f)
                # a value read from exported data has the type the exporter stores under that key, whatever the local
                # that receives it is annotated with (`ipnet: IPv4Network = d["ipnet"]` is Optional when data() says so)
                t_exp = dis.exported_value_type(f, n.value)
                if t_exp is not None:
                    t = t_exp
                ms = members(t)
                if NONE in ms and len(ms) > 1:
                    n_opt += 1
                    rep.instance()
                    why = dis.optional_attr(f, n)
                    if why:
                        rep.ok(f"{f.qualname}: {snippet(n, 50)}", why, nontrivial=True, where=where(f, n))
                    else:
                        rep.violation(f.qualname, snippet(n), f"`{src(n.value)}` may be None here: AttributeError (not a documented error) can escape", where(f, n), inp="an address group / non-contiguous wildcard reaching this statement")


# ------------------------------------------------------------------ R20.3 recursion
def r20_3(ctx: Ctx, rep: Report, sl: Set[Func]) -> None:
    rep.rule("R20.3")
    sccs = ctx.cg.sccs(include_weak=False)
    rep.instance(len(sccs))
    rep.floor(5, "recursive cycles")
    callers: Dict[Func, Set[Func]] = {}
    for g in ctx.prog.funcs:
        for e in ctx.cg.all_edges(g):
            if isinstance(e.target, Func) and not e.weak:
                callers.setdefault(e.target, set()).add(g)
    for comp in sccs:
        names = sorted(f.qualname for f in comp)
        accepted = {f for f in comp if f.qualname in OBJECT_NESTING_CYCLES or f.qualname in CONSTRUCTION_CYCLES}
        # a private helper all of whose callers are accepted members of the same cycle is a part of them that was
        # extracted: inlining it back gives a cycle over accepted members only
        extracted: Dict[str, List[str]] = {}
        changed = True
        while changed:
            changed = False
            for f in comp:
                if f in accepted or not (f.name.startswith("_") and not f.name.startswith("__")) or f.kind in ("getter", "setter"):
                    continue
                cs = callers.get(f, set())
                if cs and cs <= accepted:
                    accepted.add(f)
                    extracted[f.qualname] = sorted(c.qualname for c in cs)
                    changed = True
        for q in names:
            rep.instance()
            f = ctx.func(q) if ctx.prog.find_func(q) else None
            if q in extracted:
                rep.ok(f"cycle {names}: {q}", f"private helper called only from {extracted[q]} (members of this cycle that are bounded by object nesting): an extracted part of them", nontrivial=False)
            elif q in OBJECT_NESTING_CYCLES:
                rep.ok(f"cycle {names}: {q}", "depth bounded by object nesting built by the caller — " + OBJECT_NESTING_CYCLES[q], nontrivial=False)
            elif q in CONSTRUCTION_CYCLES:
                rep.ok(f"cycle {names}: {q}", "container construction builds its children (depth = nesting of the supplied items)", nontrivial=False)
            elif q == "helpers.check_start_step_sequence.<locals>._wrapper":
                rep.ok(f"cycle {names}: {q}", "wrapper of resequence (same cycle)", nontrivial=False)
            else:
                fn = next((x for x in comp if x.qualname == q), None)
                in_slice = fn in sl if fn is not None else True
                if in_slice:
                    rep.violation(q, f"recursive cycle {names}", "recursion whose depth is governed by the input text (one level per token / indentation level): RecursionError, which no handler of the builders catches, can escape", where(fn) if fn is not None else "")
                else:
                    # not reachable from a constructor or a config-level entry: whatever bounds it, no text handed to a
                    # constructor can drive it (operations on objects that already exist are other properties' business)
                    rep.ok(f"cycle {names}: {q}", "outside the slice reachable from the constructors: not driven by input text", nontrivial=False)


# ------------------------------------------------------------------ R20.4 loops
def r20_4(ctx: Ctx, rep: Report, sl: Set[Func]) -> None:
    rep.rule("R20.4")
    for f in sorted(sl, key=lambda x: x.qualname):
        for n in own_nodes(f.node):
            if isinstance(n, ast.While):
                rep.instance()
                why = _while_variant(ctx, f, n)
                if why:
                    rep.ok(f"{f.qualname}: while {snippet(n.test, 30)}", why, where=where(f, n))
                else:
                    rep.violation(f.qualname, f"while {snippet(n.test)}", "a while loop without a recognised variant is reachable from a constructor: possible endless computation on some input", where(f, n))
            if isinstance(n, ast.For):
                it = n.iter
                names = set()
                if isinstance(it, ast.Name):
                    names.add(it.id)
                elif isinstance(it, ast.Attribute):
                    names.add(src(it))
                elif isinstance(it, ast.Call) and isinstance(it.func, ast.Name) and it.func.id in ("enumerate", "reversed") and it.args:
                    names.add(src(it.args[0]))
                for x in ast.walk(n):
                    if isinstance(x, ast.Call) and isinstance(x.func, ast.Attribute) and x.func.attr in ("append", "extend", "insert", "remove", "pop", "clear") and src(x.func.value) in names:
                        rep.instance()
                        rep.violation(f.qualname, snippet(x), f"the loop changes the length of `{src(x.func.value)}` while iterating it: elements are skipped or the loop never ends", where(f, x))
    # an assignment to the variable of a `for` loop that reaches the loop head again without having been read is lost:
    # code that relies on it to skip ahead re-visits the same elements (with recursion in the body: exponentially often)
    for f in sorted(sl, key=lambda x: x.qualname):
        cfg = ctx.cfg(f)
        for lp in [n for n in cfg.live if n.kind == "for"]:
            tnames = {x.id for x in ast.walk(lp.ast.target) if isinstance(x, ast.Name)}
            inside = {id(x) for b in lp.ast.body for x in ast.walk(b)}
            for nd in cfg.live:
                if nd.kind != "stmt" or nd.ast is None or id(nd.ast) not in inside:
                    continue
                stored = {x.id for x in ast.walk(nd.ast) if isinstance(x, ast.Name) and isinstance(x.ctx, ast.Store)} & tnames
                # only direct children loops: skip stores that belong to a nested loop's own target
                if not stored or isinstance(nd.ast, (ast.For,)):
                    continue
                for v in sorted(stored):
                    rep.instance()

                    def uses(m: Node, v=v) -> bool:
                        if m.ast is None or m is nd:
                            return False
                        root = m.ast.iter if m.kind == "for" else m.ast
                        return any(isinstance(x, ast.Name) and x.id == v and isinstance(x.ctx, ast.Load) for x in ast.walk(root))

                    succ = [s_ for lab, s_ in nd.succ if lab != "exc"]
                    lost = bool(succ) and (lp is succ[0] or lp in cfg.reachable(succ[0], avoid=lambda m: m is not lp and uses(m), labels_avoid=("exc",))) and (succ[0] is lp or not uses(succ[0]))
                    if lost:
                        rep.violation(f.qualname, f"{snippet(nd.ast, 60)} inside `for {src(lp.ast.target)} in {snippet(lp.ast.iter, 30)}`", f"the value stored in the loop variable `{v}` can reach the next iteration unread, where `for` overwrites it: a skip-ahead that relies on it does not happen and the same lines are processed again (with the recursive call in this loop the work doubles per nesting level)", where(f, nd.ast), inp="a configuration with 20 nested indentation levels: acls() does not return")
                    else:
                        rep.ok(f"{f.qualname}: {snippet(nd.ast, 50)}", f"the stored `{v}` is read (or the loop is left) before the next iteration", nontrivial=False, where=where(f, nd.ast))
    rep.instance()
    rep.ok("for loops in the slice", "none mutates the sequence it iterates", nontrivial=False)


def _while_variant(ctx: Ctx, f: Func, w: ast.While) -> Optional[str]:
    """Recognised termination arguments."""
    # (a) while xs: ... xs.pop() on every path and nothing appended
    if isinstance(w.test, ast.Name):
        v = w.test.id
        pops = [x for x in ast.walk(w) if isinstance(x, ast.Call) and isinstance(x.func, ast.Attribute) and x.func.attr == "pop" and src(x.func.value) == v]
        grows = [x for x in ast.walk(w) if isinstance(x, ast.Call) and isinstance(x.func, ast.Attribute) and x.func.attr in ("append", "insert", "extend") and src(x.func.value) == v]
        if pops and not grows:
            return f"`{v}` shrinks by pop() on every iteration and never grows"
        return None
    # (b) a string that is replaced by a strict suffix of itself on every path that loops
    if True:
        cfg = ctx.cfg(f)
        anchor = next((n for n in cfg.live if n.extra.get("while") is w), None)
        if anchor is None:
            return None
        # find `head, *rest = s.split(sep, 1)` and `s = rest[0]`
        for n in ast.walk(w):
            if isinstance(n, ast.Assign) and isinstance(n.targets[0], ast.Tuple) and isinstance(n.value, ast.Call) and isinstance(n.value.func, ast.Attribute) and n.value.func.attr == "split":
                s_name = src(n.value.func.value)
                args = n.value.args
                if len(args) == 2 and isinstance(args[1], ast.Constant) and args[1].value == 1 and isinstance(args[0], ast.Constant) and args[0].value:
                    star = [e.value.id for e in n.targets[0].elts if isinstance(e, ast.Starred) and isinstance(e.value, ast.Name)]
                    if not star:
                        continue
                    rest = star[0]

                    def is_shrink(nd: Node) -> bool:
                        return nd.kind == "stmt" and isinstance(nd.ast, ast.Assign) and src(nd.ast.targets[0]) == s_name and src(nd.ast.value) == f"{rest}[0]"

                    body = [s for lab, s in anchor.succ]
                    if body and cfg.all_paths_pass(body[0], anchor, is_shrink, labels_avoid=("exc",)):
                        return f"every path back to the loop head replaces `{s_name}` by the part after its first separator (a strict suffix): the length decreases"
        # `head, sep, s = s.partition(<non-empty constant>)` and the loop is re-entered only when `sep` is non-empty
        for nd in cfg.live:
            n = nd.ast
            if nd.kind != "stmt" or not (isinstance(n, ast.Assign) and isinstance(n.targets[0], ast.Tuple) and len(n.targets[0].elts) == 3 and isinstance(n.value, ast.Call) and isinstance(n.value.func, ast.Attribute) and n.value.func.attr == "partition"):
                continue
            if not any(x is n for x in ast.walk(w)):
                continue
            s_name = src(n.value.func.value)
            args = n.value.args
            tg = n.targets[0].elts
            if not (len(args) == 1 and isinstance(args[0], ast.Constant) and isinstance(args[0].value, str) and args[0].value and isinstance(tg[1], ast.Name) and isinstance(tg[2], ast.Name) and isinstance(n.value.func.value, ast.Name)):
                continue
            sep = tg[1].id
            handover = None
            if src(tg[2]) != s_name:
                # `digit, space, tail = line.partition(" ")` ... `line = tail`: the rest is handed over through a local
                hs = [m for m in cfg.live if m.kind == "stmt" and isinstance(m.ast, ast.Assign) and len(m.ast.targets) == 1 and src(m.ast.targets[0]) == s_name and src(m.ast.value) == tg[2].id and any(x is m.ast for x in ast.walk(w))]
                if len(hs) != 1:
                    continue
                handover = hs[0]
            others = [x for x in ast.walk(w) if isinstance(x, ast.Name) and isinstance(x.ctx, ast.Store) and x.id in (s_name, sep, tg[2].id) and not any(x is e for e in tg) and not (handover is not None and x is handover.ast.targets[0])]
            if others:
                continue
            body = [s_ for lab, s_ in anchor.succ]
            if not (body and cfg.all_paths_pass(body[0], anchor, lambda m, nd=nd: m is nd, labels_avoid=("exc",))):
                continue
            if handover is not None and not cfg.all_paths_pass(body[0], anchor, lambda m, h_=handover: m is h_, labels_avoid=("exc",)):
                continue
            # cut the edges taken when `sep` is truthy: the loop head must then be unreachable from the partition
            cut = set()
            for c in cfg.live:
                if c.kind == "cond":
                    if isinstance(c.ast, ast.Name) and c.ast.id == sep:
                        cut.add((c.id, "T"))
                    elif isinstance(c.ast, ast.UnaryOp) and isinstance(c.ast.op, ast.Not) and isinstance(c.ast.operand, ast.Name) and c.ast.operand.id == sep:
                        cut.add((c.id, "F"))
            from .common import reachable_without_edges

            after = [s_ for lab, s_ in nd.succ if lab != "exc"]
            if cut and after and anchor not in reachable_without_edges(cfg, after[0], cut):
                return f"every path back to the loop head replaces `{s_name}` by the part after a separator that was found (`{sep}` tested non-empty): a strict suffix, the length decreases"
    return None


# ------------------------------------------------------------------ R20.5 regexes
def r20_5(ctx: Ctx, rep: Report, sl: Set[Func]) -> None:
    rep.rule("R20.5")
    pats: Dict[str, Tuple[Func, ast.AST]] = {}
    for f in sorted(sl, key=lambda x: x.qualname):
        env = ctx.folder.local_env(f)
        for n in own_nodes(f.node):
            if isinstance(n, ast.Call) and n.args:
                fn = src(n.func)
                if fn.split(".")[-1] in ("findall", "findall1", "findall2", "findall3", "re_find_t", "match", "search", "sub", "fullmatch", "compile") and (fn.startswith(("re.", "h.")) or fn in ("findall1", "findall2", "findall3", "re_find_t")):
                    arg = n.args[0]
                    for k in n.keywords:
                        if k.arg in ("pattern", "regex"):
                            arg = k.value
                    v = ctx.folder.fold(arg, f.module, env)
                    if isinstance(v, str):
                        pats.setdefault(v, (f, n))
                    elif isinstance(arg, ast.Name) and arg.id in f.params and f.name.startswith("_") and f.qualname not in ("helpers.findall1", "helpers.findall2", "helpers.findall3", "helpers.re_find_t"):
                        # the pattern is a parameter of a private helper (`_parse_required(regex, line, keys)`): every
                        # pattern a caller hands in is examined where it is assembled
                        for g_ in ctx.prog.funcs:
                            for e_ in ctx.cg.all_edges(g_):
                                if e_.target is f and isinstance(e_.site, ast.Call) and e_.kind == "call" and not e_.weak:
                                    a_ = Discharger._arg_for(f, e_.site, arg.id)
                                    pv = ctx.folder.fold(a_, g_.module, ctx.folder.local_env(g_)) if a_ is not None else None
                                    if isinstance(pv, str):
                                        pats.setdefault(pv, (g_, e_.site))
                                    else:
                                        rep.note(f"R20.5 pattern handed to {f.qualname} by {g_.qualname} is not foldable")
                    elif f.qualname not in ("helpers.findall1", "helpers.findall2", "helpers.findall3", "helpers.re_find_t") and not isinstance(arg, ast.Name):
                        rep.note(f"R20.5 pattern at {f.qualname} is not foldable: {snippet(arg)}")
    # patterns compiled once at module level and applied by functions of the slice
    from ..fold import CompiledPattern

    for mod in {f.module for f in sl}:
        for name, vals in mod.consts.items():
            for v_ in vals:
                cv = ctx.folder.fold(v_, mod)
                if isinstance(cv, CompiledPattern):
                    user = next((f for f in sorted(sl, key=lambda x: x.qualname) if f.module is mod and any(isinstance(x, ast.Name) and x.id == name for x in own_nodes(f.node))), None)
                    if user is not None:
                        pats.setdefault(cv.pattern, (user, v_))
    # patterns assembled at run time from folded pieces (AddressBase: f"^{self._cmd_addrgroup()} (.+)")
    rep.instance(len(pats))
    rep.floor(15, "distinct foldable regular expressions")
    for p, (f, n) in sorted(pats.items()):
        try:
            exp, degree = rx.hazards(p)
        except Exception as ex:  # noqa: BLE001
            rep.violation(f.qualname, p, f"pattern does not parse: {ex}", where(f, n))
            continue
        if exp:
            rep.violation(f.qualname, f"pattern {p!r}", f"exponential backtracking hazard ({exp[0]}): a crafted line makes the match run practically forever", where(f, n), inp="'a' * 40 + '!' style input")
        elif degree > 2:
            rep.violation(f.qualname, f"pattern {p!r}", f"{degree} adjacent unbounded repeats over overlapping classes: polynomial backtracking of degree {degree}", where(f, n))
        else:
            rep.ok(f"{f.qualname}: {p[:60]!r}", f"no nested unbounded repeat; ambiguity degree {degree}", nontrivial=degree > 1, where=where(f, n))
    from ..fixtures import fixture_ctx

    # positive fixture: a star-height-2 pattern must be recognised on every run
    exp, _ = rx.hazards(r"^(a+)+$")
    if not exp:
        raise AnalysisError("regex hazard detector no longer recognises (a+)+")


# ------------------------------------------------------------------ R20.6 classification assigns the whole state
def r20_6(ctx: Ctx, rep: Report) -> None:
    from .c17 import NEVER_RETURNS, _must_assign

    rep.rule("R20.6")
    platforms = ctx.folder.const("helpers", "PLATFORMS")
    state = {"_type", "_addrgroup", "_wildcard"}
    memo: Dict = {}
    for cn in ("Address", "AddressAg"):
        cls = ctx.cls(cn)
        for mname in ("_line__any", "_line__host", "_line__prefix", "_line__wildcard", "_line__subnet", "_line_addrgroup"):
            m = cls.lookup_method(mname)
            if m is None:
                continue
            for plat in platforms:
                rep.instance()
                must = _must_assign(ctx, m, cls, memo, 0, {"self._platform": plat, "self.platform": plat})
                if must is NEVER_RETURNS:
                    rep.ok(f"{cn}.{mname} on {plat}", "always raises (the form is rejected on this platform)", nontrivial=False, where=where(m))
                    continue
                miss = sorted(state - set(must))
                if miss:
                    rep.violation(
                        m.qualname,
                        f"{cn} on {plat}: a normal path leaves {miss} unassigned",
                        f"the classifier returns normally without assigning {miss}: the object keeps placeholder state and renders text ('' or a stale value) that its own constructor does not accept",
                        where(m),
                        inp=f'{cn}("10.0.0.0/24", platform="{plat}").line',
                    )
                else:
                    rep.ok(f"{cn}.{mname} on {plat}", "assigns _type, _addrgroup and _wildcard on every normal path", where=where(m))
    rep.floor(30, "classifier x platform combinations")


def _scope_loads(root: ast.AST):
    """Name loads evaluated in the enclosing function's scope when `root` runs: nested function / lambda / class bodies
    and the inner parts of comprehensions are their own scopes (only a comprehension's first iterable is ours)."""
    stack = [root]
    while stack:
        x = stack.pop()
        if isinstance(x, (ast.FunctionDef, ast.AsyncFunctionDef, ast.Lambda, ast.ClassDef)):
            continue
        if isinstance(x, (ast.ListComp, ast.SetComp, ast.DictComp, ast.GeneratorExp)):
            stack.append(x.generators[0].iter)
            continue
        if isinstance(x, ast.Name) and isinstance(x.ctx, ast.Load):
            yield x
        stack.extend(ast.iter_child_nodes(x))


def r20_9(ctx: Ctx, rep: Report, sl: Set[Func]) -> None:
    """Definite assignment of locals: a local that some path reads before any path binds it raises UnboundLocalError,
    which no constructor documents (typical: a variable initialised in an if/elif chain that has no branch for 'asa')."""
    rep.rule("R20.9")
    n_funcs = 0
    for f in sorted(sl, key=lambda x: x.qualname):
        cfg = ctx.cfg(f)
        a = f.node.args
        params = {x.arg for x in a.posonlyargs + a.args + a.kwonlyargs} | ({a.vararg.arg} if a.vararg else set()) | ({a.kwarg.arg} if a.kwarg else set())
        comp_t: Set[int] = set()
        for c in own_nodes(f.node):
            if isinstance(c, (ast.ListComp, ast.SetComp, ast.DictComp, ast.GeneratorExp)):
                for g in c.generators:
                    comp_t |= {id(x) for x in ast.walk(g.target) if isinstance(x, ast.Name)}
        local = {x.id for x in own_nodes(f.node) if isinstance(x, ast.Name) and isinstance(x.ctx, ast.Store) and id(x) not in comp_t}
        local |= {x.name for x in own_nodes(f.node) if isinstance(x, (ast.FunctionDef, ast.ClassDef))}
        if any(isinstance(x, (ast.Global, ast.Nonlocal)) for x in own_nodes(f.node)):
            continue
        n_funcs += 1

        def binds(node: Node) -> Set[str]:
            out: Set[str] = set()
            if node.ast is None:
                return out
            if node.kind == "for":
                return {x.id for x in ast.walk(node.ast.target) if isinstance(x, ast.Name)}
            if node.kind == "except":
                return {node.ast.name} if getattr(node.ast, "name", None) else out
            if node.kind in ("stmt", "cond"):
                if isinstance(node.ast, (ast.FunctionDef, ast.ClassDef)):
                    return {node.ast.name}
                for x in ast.walk(node.ast):
                    if isinstance(x, ast.Name) and isinstance(x.ctx, ast.Store) and id(x) not in comp_t:
                        out.add(x.id)
                    if isinstance(x, (ast.Import, ast.ImportFrom)):
                        out |= {(al.asname or al.name).split(".")[0] for al in x.names}
                if isinstance(node.ast, ast.With):
                    pass
            return out

        # loops over a constant non-empty sequence run their body at least once: what leaves such a loop by exhaustion
        # has been through the body
        lenv = ctx.folder.local_env(f)
        nonempty_loops: Dict[Node, Set[Node]] = {}
        for nd in cfg.live:
            if nd.kind == "for":
                seq = ctx.folder.fold(nd.ast.iter, f.module, lenv)
                if known(seq) and isinstance(seq, (tuple, list, str, dict, set)) and len(seq) > 0:
                    bs = [s_ for lab, s_ in nd.succ if lab == "body"]
                    if bs:
                        body = {m for m in cfg.reachable(bs[0], labels_avoid=("exc",)) if nd in cfg.reachable(m, labels_avoid=("exc",))}
                        nonempty_loops[nd] = body
        OUT: Dict[Node, Optional[Set[str]]] = {nd: None for nd in cfg.live}
        OUTX: Dict[Node, Optional[Set[str]]] = {nd: None for nd in nonempty_loops}

        INS: Dict[Node, Optional[Set[str]]] = {nd: None for nd in cfg.live}

        def state_on_edge(p: Node, lab: str) -> Optional[Set[str]]:
            if lab == "exit" and p in nonempty_loops:
                return OUTX.get(p)
            if lab == "exc":
                return INS.get(p)  # the statement raised: what it would have bound is not bound
            return OUT.get(p)

        changed = True
        while changed:
            changed = False
            for nd in cfg.live:
                ins: Optional[Set[str]] = None
                for lab, p in nd.pred:
                    st_ = state_on_edge(p, lab)
                    if st_ is None:
                        continue
                    ins = set(st_) if ins is None else ins & st_
                if nd is cfg.entry:
                    ins = set(params)
                if ins is None:
                    continue
                if INS[nd] != ins:
                    INS[nd] = set(ins)
                    changed = True
                new = ins | binds(nd)
                if OUT[nd] != new:
                    OUT[nd] = new
                    changed = True
                if nd in nonempty_loops:
                    back: Optional[Set[str]] = None
                    for lab, p in nd.pred:
                        if p in nonempty_loops[nd] and OUT.get(p) is not None:
                            back = set(OUT[p]) if back is None else back & OUT[p]
                    if back is not None:
                        nx = back | binds(nd)
                        if OUTX[nd] != nx:
                            OUTX[nd] = nx
                            changed = True
        reported: Set[str] = set()
        for nd in cfg.live:
            if nd.ast is None or nd.kind not in ("stmt", "cond", "for"):
                continue
            ins = None
            for lab, p in nd.pred:
                st_ = state_on_edge(p, lab)
                if st_ is None:
                    continue
                ins = set(st_) if ins is None else ins & st_
            if ins is None:
                continue
            root = nd.ast.iter if nd.kind == "for" else nd.ast
            for x in _scope_loads(root):
                if x.id in local and x.id not in ins and x.id not in reported:
                    # a walrus in the same test binds before the later operands read
                    if nd.kind == "cond" and any(isinstance(w, ast.NamedExpr) and isinstance(w.target, ast.Name) and w.target.id == x.id for w in ast.walk(nd.ast)):
                        continue
                    reported.add(x.id)
                    rep.instance()
                    rep.violation(f.qualname, f"`{x.id}` read at line {getattr(x, 'lineno', '?')}", f"the local `{x.id}` is read on a path on which nothing has bound it: UnboundLocalError (not a documented error) escapes", where(f, x), inp="an object built with platform='asa' reaching this statement")
    rep.instance(n_funcs)
    rep.ok("locals of the constructors' slice", f"{n_funcs} functions: every local is bound on every path before it is read", nontrivial=True)
    rep.floor(50, "functions examined for definite assignment")


def r20_10(ctx: Ctx, rep: Report) -> None:
    """Attributes are assigned before they are read while an object is being constructed: a getter or an error message
    evaluated inside the first `self.line = ...` of a constructor sees only what __init__ has stored so far; reading
    anything else raises AttributeError (not a documented error)."""
    rep.rule("R20.10")
    n_cls = 0
    for cn in ENTRY_CLASSES:
        cls = ctx.cls(cn)
        init = cls.lookup_method("__init__")
        if init is None:
            continue
        n_cls += 1
        inst_attrs: Set[str] = set()
        class_level: Set[str] = set()
        for c in cls.mro:
            for st in c.node.body:
                if isinstance(st, (ast.Assign, ast.AnnAssign)):
                    tg = st.targets[0] if isinstance(st, ast.Assign) else st.target
                    if isinstance(tg, ast.Name) and (isinstance(st, ast.Assign) or st.value is not None):
                        class_level.add(tg.id)
            for g in c.all_funcs():
                for x in own_nodes(g.node):
                    if isinstance(x, ast.Attribute) and isinstance(x.ctx, ast.Store) and isinstance(x.value, ast.Name) and x.value.id == "self":
                        if cls.lookup_setter(x.attr) is None and cls.lookup_getter(x.attr) is None:
                            inst_attrs.add(x.attr)
        inst_attrs -= class_level
        found: Dict[Tuple[str, str], Tuple[Func, ast.AST]] = {}
        memo: Dict[Tuple[int, frozenset], Optional[Set[str]]] = {}
        busy: Set[Tuple[int, frozenset]] = set()

        def analyse(f: Func, cur: Set[str], depth: int = 0) -> Optional[Set[str]]:
            """Must-set of instance attributes after a normal return of f entered with `cur` assigned (None: never returns)."""
            key = (id(f), frozenset(cur))
            if key in memo:
                return memo[key]
            if key in busy or depth > 12:
                return set(cur)
            busy.add(key)
            cfg = ctx.cfg(f)
            self_name = f.params[0] if f.params and f.cls is not None and f.kind != "staticmethod" else None
            if f.parent is not None:
                # a function defined inside a method reads the method's `self`
                outer_ = f
                while outer_.parent is not None:
                    outer_ = outer_.parent
                self_name = outer_.params[0] if outer_.params and outer_.cls is not None and outer_.kind != "staticmethod" else None
            INS: Dict[Node, Optional[Set[str]]] = {nd: None for nd in cfg.live}
            OUT: Dict[Node, Optional[Set[str]]] = {nd: None for nd in cfg.live}

            def transfer(nd: Node, state: Set[str]) -> Optional[Set[str]]:
                if nd.ast is None or self_name is None or nd.kind not in ("stmt", "cond", "for"):
                    return state
                st_ = set(state)
                root = nd.ast.iter if nd.kind == "for" else nd.ast
                # evaluation order inside one statement: the value is evaluated before the targets are bound
                loads = []
                stores = []
                calls = []
                calls_by_name: Dict[str, ast.Call] = {}
                for x in _scope_loads_all(root):
                    if isinstance(x, ast.Attribute) and isinstance(x.value, ast.Name) and x.value.id == self_name:
                        if isinstance(x.ctx, ast.Load):
                            par = getattr(x, "_parent", None)
                            if isinstance(par, ast.Call) and par.func is x:
                                calls.append((x.attr, par))
                                calls_by_name[x.attr] = par
                            else:
                                loads.append(x)
                        elif isinstance(x.ctx, ast.Store):
                            stores.append(x)
                    if isinstance(x, ast.Call) and isinstance(x.func, ast.Attribute) and isinstance(x.func.value, ast.Call) and src(x.func.value.func) == "super" and f.cls in cls.mro:
                        for c in cls.mro[cls.mro.index(f.cls) + 1 :]:
                            if x.func.attr in c.methods:
                                calls.append(("super:" + x.func.attr, c.methods[x.func.attr]))
                                calls_by_name["super:" + x.func.attr] = x
                                break
                    if isinstance(x, ast.Call) and isinstance(x.func, ast.Name):
                        # a call of a function defined inside this method: its body runs now, on the same object
                        loc_ = next((h_ for h_ in ctx.prog.funcs if h_.name == x.func.id and h_.parent is not None and (h_.parent is f or h_.parent is f.parent)), None)
                        if loc_ is not None and loc_ is not f:
                            calls.append(("local:" + x.func.id, loc_))
                            calls_by_name["local:" + x.func.id] = x
                    if isinstance(x, ast.Call) and isinstance(x.func, ast.Attribute) and isinstance(x.func.value, ast.Name) and x.func.value.id in ctx.prog.classes and x.args and src(x.args[0]) == self_name:
                        m_ = ctx.prog.classes[x.func.value.id].lookup_method(x.func.attr)
                        if m_ is not None:
                            calls.append(("cls:" + x.func.attr, m_))
                            calls_by_name["cls:" + x.func.attr] = x
                for x in loads:
                    g = cls.lookup_getter(x.attr)
                    if g is not None:
                        r_ = analyse(g, st_, depth + 1)
                        if r_ is None:
                            return None
                    elif x.attr in inst_attrs and x.attr not in st_:
                        found.setdefault((f.qualname, x.attr), (f, x))
                for name, what in calls:
                    m_ = what if isinstance(what, Func) else cls.lookup_method(name)
                    if m_ is None or m_ is f:
                        continue
                    arg = {t for t in st_ if not t.startswith("$")}
                    call = what if isinstance(what, ast.Call) else calls_by_name.get(name)
                    if call is not None and not any(isinstance(a, ast.Starred) for a in call.args) and not any(k.arg is None for k in call.keywords):
                        # parameters the call leaves at a None/empty default are falsy inside the callee
                        fa = m_.node.args
                        pos = fa.posonlyargs + fa.args
                        given = len(call.args) + (1 if name.startswith(("super:",)) or not name.startswith(("cls:", "local:")) else 0)
                        kw = {k.arg for k in call.keywords}
                        for i_, a_ in enumerate(pos):
                            d_i = i_ - (len(pos) - len(fa.defaults))
                            if i_ >= given and a_.arg not in kw and d_i >= 0:
                                d_ = fa.defaults[d_i]
                                if (isinstance(d_, ast.Constant) and not d_.value) or _is_empty_literal(d_):
                                    arg.add("$empty:" + a_.arg)
                        # a parameter known to be empty here and handed on as it is, is empty in the callee too
                        off = given - len(call.args)
                        for i_, v_ in enumerate(call.args):
                            if isinstance(v_, ast.Name) and i_ + off < len(pos):
                                for mark in ("$empty:", "$list:"):
                                    if mark + v_.id in st_:
                                        arg.add(mark + pos[i_ + off].arg)
                        for k_ in call.keywords:
                            if k_.arg and isinstance(k_.value, ast.Name):
                                for mark in ("$empty:", "$list:"):
                                    if mark + k_.value.id in st_:
                                        arg.add(mark + k_.arg)
                    r_ = analyse(m_, arg, depth + 1)
                    if r_ is None:
                        return None
                    st_ |= {t for t in r_ if not t.startswith("$")}
                for x in stores:
                    stt = cls.lookup_setter(x.attr)
                    if stt is not None and stt is not f:
                        arg = {t for t in st_ if not t.startswith("$")}
                        par = getattr(x, "_parent", None)
                        if isinstance(par, (ast.Assign, ast.AnnAssign)) and _is_empty_literal(par.value) and len(stt.params) == 2:
                            arg.add("$empty:" + stt.params[1])  # the setter runs on an empty value: its loops over it do not
                            if isinstance(par.value, ast.List):
                                arg.add("$list:" + stt.params[1])
                        r_ = analyse(stt, arg, depth + 1)
                        if r_ is None:
                            return None
                        st_ |= {t for t in r_ if not t.startswith("$")}
                    else:
                        st_.add(x.attr)
                for x in _scope_loads_all(nd.ast.target if nd.kind == "for" else root):
                    if isinstance(x, ast.Name) and isinstance(x.ctx, ast.Store):
                        st_.discard("$empty:" + x.id)
                        st_.discard("$list:" + x.id)
                return st_

            def dead(p: Node, lab: str) -> bool:
                """An edge that cannot be taken because the value of a parameter is known to be an empty list."""
                st_ = OUT.get(p)
                if not st_ or p.ast is None:
                    return False
                if p.kind == "for" and lab == "body":
                    return isinstance(p.ast.iter, ast.Name) and "$empty:" + p.ast.iter.id in st_
                if p.kind == "cond" and lab in ("T", "F"):
                    t = p.ast
                    if isinstance(t, ast.Name) and "$empty:" + t.id in st_:
                        return lab == "T"
                    if isinstance(t, ast.Call) and src(t.func) == "isinstance" and len(t.args) == 2 and isinstance(t.args[0], ast.Name) and "$list:" + t.args[0].id in st_:
                        names = [src(e) for e in (t.args[1].elts if isinstance(t.args[1], ast.Tuple) else [t.args[1]])]
                        if not all(nm in ctx.prog.classes or nm in ("str", "int", "dict", "list", "tuple", "bool", "float", "bytes", "set") for nm in names):
                            return False
                        return lab == ("F" if "list" in names else "T")
                return False

            changed = True
            it = 0
            while changed and it < 40:
                changed = False
                it += 1
                for nd in cfg.live:
                    ins: Optional[Set[str]] = None
                    for lab, p in nd.pred:
                        st_ = INS.get(p) if lab == "exc" else OUT.get(p)
                        if st_ is None or dead(p, lab):
                            continue
                        ins = set(st_) if ins is None else ins & st_
                    if nd is cfg.entry:
                        ins = set(cur)
                    if ins is None:
                        continue
                    if INS[nd] != ins:
                        INS[nd] = set(ins)
                        changed = True
                    new = transfer(nd, ins)
                    if new is None:
                        continue
                    if OUT[nd] != new:
                        OUT[nd] = new
                        changed = True
            res = OUT.get(cfg.exit)
            busy.discard(key)
            memo[key] = res
            return res

        analyse(init, set())
        rep.instance()
        if found:
            for (q, attr), (f, x) in sorted(found.items()):
                rep.violation(q, f"self.{attr} read while {cn} is being constructed", f"`self.{attr}` can be read before any statement of the constructor chain has assigned it (the read is reached from {cn}.__init__): AttributeError, which no constructor documents, escapes", where(f, x), inp=f'{cn}(<a text that reaches this statement>)')
        else:
            rep.ok(f"{cn}.__init__", f"every instance attribute read during construction ({len(inst_attrs)} attributes) was assigned before", where=where(init))
    rep.floor(8, "constructors")


def remark_has_text(ctx: Ctx, rep: Report, rid: str = "R20.14") -> None:
    """A Remark that is returned has a text: every normally returning path of `Remark.__init__` passes through the text
    validator (`init_remark_text`, directly or through the line setter, which ends in it).  `Remark("")` took neither
    branch: it was returned with text "" and renders `remark`, which `Remark()` refuses (`copy()` raises)."""
    rep.rule(rid)
    f = ctx.prog.find_func("Remark.__init__")
    rep.instance()
    if f is None:
        rep.note(f"{rid} Remark.__init__ not present - not judged")
        return
    ls = ctx.prog.find_func("Remark.line.setter")
    setter_validates = ls is not None and any(isinstance(x, ast.Call) and src(x.func).endswith("init_remark_text") for x in own_nodes(ls.node))
    cfg = ctx.cfg(f)

    def validates(nd) -> bool:
        if nd.ast is not None and nd.kind == "cond" and any(isinstance(x, ast.Attribute) and src(x.value) == "self" and x.attr.lstrip("_") == "text" for x in ast.walk(nd.ast)):
            # the text the object ended up with is inspected, and one outcome raises
            return any(s_.kind == "stmt" and isinstance(s_.ast, ast.Raise) for lab in ("T", "F") for s_ in nd.succs(lab))
        if nd.ast is None or nd.kind != "stmt":
            return False
        if any(isinstance(x, ast.Call) and src(x.func).endswith("init_remark_text") for x in ast.walk(nd.ast)):
            return True
        return setter_validates and isinstance(nd.ast, ast.Assign) and any(isinstance(t, ast.Attribute) and src(t) == "self.line" for t in nd.ast.targets)

    # path by path, leaving out the paths on which one unmodified local is tested both ways (`if not (line or ...): raise`
    # followed by `if line:`)
    bad_paths = [pi for pi in function_paths(cfg) if not pi.raises and not any(validates(nd_) for nd_, _lab in pi.nodes)]
    if not bad_paths:
        rep.ok("Remark.__init__", "every returning path validates a text (keyword `text`, or the line through its setter)", where=where(f))
    else:
        w = [nd_ for nd_, _lab in bad_paths[0].nodes]
        conds = [snippet(n_.ast, 30) for n_ in w if n_.kind == "cond" and n_.ast is not None][-3:]
        rep.violation("Remark.__init__", f"path through [{'; '.join(conds)}] returns without a text", "a Remark is returned that has no text: it renders `remark` (or `10 remark`), which the same constructor refuses - copy() and every re-parse of an ACL that holds it raise / drop the line", where(f), inp="Remark('')  ->  line == 'remark';  Remark('remark') raises ValueError")


def group_never_built_empty(ctx: Ctx, rep: Report, rid: str = "R20.12") -> None:
    """An address group built from text has at least one member (its own constructor refuses the bare header it would
    render otherwise): the store of the parsed members in `AddrGroup.line` is dominated by a test of THAT list being
    empty whose empty branch raises - a test that is also satisfied by the raw lines lets a group through whose every
    member line was invalid."""
    rep.rule(rid)
    f = ctx.func("AddrGroup.line.setter")
    cfg = ctx.cfg(f)
    stores = [nd for nd in cfg.live if nd.kind == "stmt" and isinstance(nd.ast, ast.Assign) and any(isinstance(t, ast.Attribute) and src(t.value) == "self" and t.attr in ("items", "_items") for t in nd.ast.targets) and isinstance(nd.ast.value, ast.Name)]
    rep.instance()
    if not stores:
        rep.note(f"{rid} AddrGroup.line setter does not store a local list of parsed members (not judged)")
        return
    st = stores[-1]
    acc = st.ast.value.id
    ok = False
    for c in cfg.live:
        if c.kind != "cond" or not cfg.dominates(c, st):
            continue
        t = c.ast
        empty_lab = None
        if isinstance(t, ast.UnaryOp) and isinstance(t.op, ast.Not) and isinstance(t.operand, ast.Name) and t.operand.id == acc:
            empty_lab = "T"
        elif isinstance(t, ast.Name) and t.id == acc:
            empty_lab = "F"
        elif isinstance(t, ast.Compare) and len(t.ops) == 1 and src(t.left) == f"len({acc})" and isinstance(t.comparators[0], ast.Constant) and t.comparators[0].value == 0 and isinstance(t.ops[0], ast.Eq):
            empty_lab = "T"
        if empty_lab is None:
            continue
        succ = c.succs(empty_lab)
        if succ and st not in {x for s_ in succ for x in cfg.reachable(s_, labels_avoid=("exc",)) | {s_}}:
            ok = True
    if ok:
        rep.ok(f"AddrGroup.line setter: {snippet(st.ast, 40)}", f"reached only when `{acc}` is not empty (the empty branch raises)", where=where(f, st.ast))
    else:
        rep.violation("AddrGroup.line.setter", snippet(st.ast, 50), f"the parsed member list `{acc}` can be stored empty: a group whose every member line was invalid is built, and it renders a bare header that its own constructor refuses", where(f, st.ast), inp="AddrGroup('object-group network WEB\\n description web servers')")


def _is_empty_literal(e: Optional[ast.AST]) -> bool:
    return isinstance(e, (ast.List, ast.Tuple)) and not e.elts


def _scope_loads_all(root: ast.AST):
    """All nodes evaluated in the enclosing function's scope when `root` runs (nested defs/lambdas skipped; only the first
    iterable of a comprehension is ours - its element expression runs in the comprehension's scope but still reads self)."""
    stack = [root]
    while stack:
        x = stack.pop()
        if isinstance(x, (ast.FunctionDef, ast.AsyncFunctionDef, ast.Lambda, ast.ClassDef)):
            continue
        yield x
        stack.extend(ast.iter_child_nodes(x))


def guarded_first_match(ctx: Ctx, rep: Report, rid: str = "R20.15") -> None:
    """`[o for o in groups if P(o)][0]` in the config-level reader cannot raise IndexError only because a guard function
    counted `[o for o in groups if P'(o)]` first: the two selections are the same predicate.  A guard that matches more
    widely than the reader (case-insensitive name, prefix) lets through a reference the reader finds nothing for, and
    `acls()` raises IndexError - not a documented error.  Judged only when both selections have the list-comprehension
    shape; any other shape is reported as not judged."""
    rep.rule(rid)
    f = ctx.prog.find_func("functions._add_addgr_to_aces")
    chk = ctx.prog.find_func("functions._check_addgr")
    if f is None or chk is None:
        rep.note(f"{rid} functions._add_addgr_to_aces / _check_addgr not found - not judged")
        return

    def shape(lc: ast.ListComp, owner: Func) -> Optional[str]:
        if len(lc.generators) != 1 or len(lc.generators[0].ifs) != 1 or not isinstance(lc.generators[0].target, ast.Name):
            return None
        var = lc.generators[0].target.id
        test = lc.generators[0].ifs[0]
        binds: Dict[str, List[ast.AST]] = {}
        for a in own_nodes(owner.node):
            if isinstance(a, ast.Assign) and len(a.targets) == 1 and isinstance(a.targets[0], ast.Name):
                binds.setdefault(a.targets[0].id, []).append(a.value)
        env = {k: v[0] for k, v in binds.items() if len(v) == 1}

        def norm(e: ast.AST) -> str:
            e = resolve_local(e, env) if isinstance(e, ast.Name) and e.id != var else e
            out = []
            for x in ast.walk(e):
                if isinstance(x, ast.Name):
                    out.append("o" if x.id == var else "N")
                elif isinstance(x, ast.Attribute):
                    out.append("." + x.attr)
                elif isinstance(x, ast.Call):
                    out.append("call")
                elif isinstance(x, ast.Constant):
                    out.append(repr(x.value))
                elif isinstance(x, (ast.cmpop, ast.operator, ast.boolop, ast.unaryop)):
                    out.append(type(x).__name__)
            return " ".join(out)

        if isinstance(test, ast.Compare) and len(test.ops) == 1 and isinstance(test.ops[0], ast.Eq):
            sides = [norm(test.left), norm(test.comparators[0])]
            with_var = [s_ for s_ in sides if s_.startswith("o") or " o" in s_]
            other = [s_ for s_ in sides if s_ not in with_var]
            if len(with_var) == 1 and len(other) == 1:
                # the referenced name: a plain value (name / attribute chain) or a transformed one
                plain = all(tok in ("N",) or tok.startswith(".") for tok in other[0].split())
                return f"{with_var[0]} == {'<name>' if plain else other[0]}"
        return None

    readers = []
    for x in own_nodes(f.node):
        if isinstance(x, ast.Subscript) and isinstance(x.value, ast.ListComp) and isinstance(x.slice, ast.Constant) and x.slice.value == 0:
            readers.append((x, shape(x.value, f)))
    guards = []
    for x in own_nodes(chk.node):
        if isinstance(x, ast.ListComp) and len(x.generators) == 1 and isinstance(x.generators[0].iter, ast.Name) and x.generators[0].iter.id in chk.params:
            guards.append((x, shape(x, chk)))
    if not readers or not guards or any(sh is None for _x, sh in readers + guards):
        rep.note(f"{rid} the reader's first-match selection or the guard's count has another shape - not judged")
        return
    gshapes = {sh for _x, sh in guards}
    for x, sh in readers:
        rep.instance()
        if sh in gshapes:
            rep.ok(f"functions._add_addgr_to_aces: {snippet(x, 50)}", f"the guard _check_addgr counted the same selection ({sh})", where=where(f, x))
        else:
            rep.violation("functions._add_addgr_to_aces", snippet(x, 60), f"the first match is taken from the selection `{sh}`, the guard _check_addgr counted `{sorted(gshapes)[0]}`: a reference the guard accepts and the reader does not find raises IndexError out of acls()/aces() - not a documented value/type error", where(f, x), inp="config defines object-group SERVERS, an ACE says `object-group servers`")


def run(ctx: Ctx, rep: Report, tier: str) -> None:
    entries, sl = slice_funcs(ctx)
    r20_1a(ctx, rep, entries)
    r20_1b(ctx, rep, sl)
    r20_3(ctx, rep, sl)
    r20_4(ctx, rep, sl)
    r20_5(ctx, rep, sl)
    r20_6(ctx, rep)
    r20_9(ctx, rep, sl)
    r20_10(ctx, rep)
    # R20.11 what the option object renders is the text it was given (C01 R01.11): a re-ordered option text is read back
    # as ports + options in another split and refused
    from .c01 import option_partition

    sub01 = Report("C20")
    option_partition(ctx, sub01)
    rep.absorb(sub01, "R20.11")
    group_never_built_empty(ctx, rep)
    remark_has_text(ctx, rep)
    guarded_first_match(ctx, rep)
    # R20.13 premises of "what it returns renders text the same constructor accepts again", as far as they are visible in
    # the shape of the code: no reader bounds the length of a text the writer can lengthen (C06 R06.9); every protocol name
    # the writer can choose is in the reader's grammar (C09 R09.13)
    from .c06 import length_gates
    from .c09 import grammar_reads_protocols

    sub13 = Report("C20")
    length_gates(ctx, sub13)
    grammar_reads_protocols(ctx, sub13)
    rep.absorb(sub13, "R20.13")
    # R20.7: what a constructor stores renders text it accepts again — structural parts decided elsewhere
    from .c06 import normaliser_fixed_point
    from .c08 import validated_is_returned

    from .c08 import operand_range

    operand_range(ctx, rep, rid="R20.8")
    validated_is_returned(ctx, rep, rid="R20.7")
    normaliser_fixed_point(ctx, rep, rid="R20.7")
    from .c09 import splitter_vocabulary

    sub = Report("C20")
    splitter_vocabulary(ctx, sub, "R09.5")
    rep.absorb(sub, "R20.7")


# what the later rounds (seeding rounds 2-5, refactor twins, defect hunt) added to what the check decides
LATER_ROUNDS = "attributes are assigned before they are read during construction, a Remark always has a text, an address group is never built empty from text, record keys exist for records collected through dict values"
EXPLANATION = EXPLANATION.replace(" Does not decide", " Later rounds added: " + LATER_ROUNDS + ". Does not decide", 1) if " Does not decide" in EXPLANATION else EXPLANATION + " Later rounds added: " + LATER_ROUNDS + "."
