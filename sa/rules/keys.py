"""Exporter / constructor key tables: what data() writes and what the __init__ chain reads."""

from __future__ import annotations

import ast
from typing import Dict, List, Optional, Set, Tuple

from ..core import Ctx
from ..model import AnalysisError, Class, Func, own_nodes, src

DATA_CLASSES = ["Ace", "Remark", "AceGroup", "Acl", "Address", "AddressAg", "AddrGroup", "Port", "Protocol", "Option", "Wildcard"]


def exported(ctx: Ctx, cls: Class, _depth: int = 0) -> Dict[str, ast.AST]:
    """key -> value expression of the dict built by cls.data() (super().data() included)."""
    f = cls.lookup_method("data")
    if f is None:
        raise AnalysisError(f"{cls.name}.data vanished")
    return _exported_of(ctx, f, cls, _depth)


def _exported_of(ctx: Ctx, f: Func, cls: Class, depth: int) -> Dict[str, ast.AST]:
    out: Dict[str, ast.AST] = {}
    dict_names: Set[str] = set()
    # a loop over a constant table of field names that fills the dict (`for name in FIELDS: data[name] = getattr(...)`) is
    # read as the statements it stands for
    if any(isinstance(x, ast.For) for x in own_nodes(f.node)):
        from .normalise import normalised

        try:
            f = normalised(ctx, f, "unroll,getattr")
        except Exception:  # noqa: BLE001 - the normaliser is an aid; the plain reading below still applies
            pass
    for n in own_nodes(f.node):
        # data.update(k=v) / data.update({"k": v}) / data.update(dict(k=v))
        if isinstance(n, ast.Call) and isinstance(n.func, ast.Attribute) and n.func.attr == "update" and isinstance(n.func.value, ast.Name):
            for k in n.keywords:
                if k.arg:
                    out[k.arg] = k.value
            for a in n.args:
                if isinstance(a, ast.Dict):
                    for k, val in zip(a.keys, a.values):
                        if isinstance(k, ast.Constant) and isinstance(k.value, str):
                            out[k.value] = val
                elif isinstance(a, ast.Call) and isinstance(a.func, ast.Name) and a.func.id == "dict":
                    for k in a.keywords:
                        if k.arg:
                            out[k.arg] = k.value
        if isinstance(n, (ast.Assign, ast.AnnAssign)) and n.value is not None:
            tg = n.targets[0] if isinstance(n, ast.Assign) else n.target
            v = n.value
            if isinstance(tg, ast.Name):
                if isinstance(v, ast.Call) and isinstance(v.func, ast.Name) and v.func.id == "dict":
                    dict_names.add(tg.id)
                    for k in v.keywords:
                        if k.arg:
                            out[k.arg] = k.value
                elif isinstance(v, ast.Dict):
                    dict_names.add(tg.id)
                    for k, val in zip(v.keys, v.values):
                        if isinstance(k, ast.Constant) and isinstance(k.value, str):
                            out[k.value] = val
                elif isinstance(v, ast.Call) and isinstance(v.func, ast.Attribute) and v.func.attr == "data" and src(v.func.value) == "super()" and depth < 4:
                    dict_names.add(tg.id)
                    mro = cls.mro
                    owner = f.cls
                    if owner in mro:
                        for c in mro[mro.index(owner) + 1 :]:
                            if "data" in c.methods:
                                out.update(_exported_of(ctx, c.methods["data"], cls, depth + 1))
                                break
            elif isinstance(tg, ast.Subscript) and isinstance(tg.value, ast.Name) and isinstance(tg.slice, ast.Constant):
                out[str(tg.slice.value)] = v
        # the dict (or an extension of it) built in the return statement: return {**data, "k": v} / return dict(...)
        if isinstance(n, ast.Return) and n.value is not None:
            v = n.value
            if isinstance(v, ast.Call) and isinstance(v.func, ast.Name) and v.func.id == "dict":
                for k in v.keywords:
                    if k.arg:
                        out[k.arg] = k.value
                    else:
                        _spread(ctx, f, cls, k.value, out, depth)
            elif isinstance(v, ast.Dict):
                for k, val in zip(v.keys, v.values):
                    if k is None:
                        _spread(ctx, f, cls, val, out, depth)
                    elif isinstance(k, ast.Constant) and isinstance(k.value, str):
                        out[k.value] = val
    return out


def _spread(ctx: Ctx, f: Func, cls: Class, e: ast.AST, out: Dict[str, ast.AST], depth: int) -> None:
    """**e inside the returned dict: a local dict (already collected) or super().data(...)."""
    if isinstance(e, ast.Call) and isinstance(e.func, ast.Attribute) and e.func.attr == "data" and src(e.func.value) == "super()" and depth < 4:
        mro = cls.mro
        owner = f.cls
        if owner in mro:
            for c in mro[mro.index(owner) + 1 :]:
                if "data" in c.methods:
                    for k, v in _exported_of(ctx, c.methods["data"], cls, depth + 1).items():
                        out.setdefault(k, v)
                    break


def uuid_conditional(ctx: Ctx, cls: Class) -> Optional[bool]:
    """True when data() stores key 'uuid' only under the `uuid` flag (on every path)."""
    f = cls.lookup_method("data")
    if f is None:
        return None
    cfg = ctx.cfg(f)
    stores = [n for n in cfg.live if n.kind == "stmt" and isinstance(n.ast, ast.Assign) and isinstance(n.ast.targets[0], ast.Subscript) and isinstance(n.ast.targets[0].slice, ast.Constant) and n.ast.targets[0].slice.value == "uuid"]
    # data.update(uuid=...) / data.update({"uuid": ...})
    stores += [n for n in cfg.live if n.kind == "stmt" and isinstance(n.ast, ast.Expr) and isinstance(n.ast.value, ast.Call) and isinstance(n.ast.value.func, ast.Attribute) and n.ast.value.func.attr == "update" and (any(k.arg == "uuid" for k in n.ast.value.keywords) or any(isinstance(a, ast.Dict) and any(isinstance(k, ast.Constant) and k.value == "uuid" for k in a.keys) for a in n.ast.value.args))]
    # or added in the return statement: return {**data, "uuid": self.uuid}
    stores += [n for n in cfg.live if n.kind == "stmt" and isinstance(n.ast, ast.Return) and isinstance(n.ast.value, ast.Dict) and any(isinstance(k, ast.Constant) and k.value == "uuid" for k in n.ast.value.keys)]
    if not stores:
        # inherited through super().data(uuid)
        for c in cls.mro[1:]:
            if "data" in c.methods and f is not c.methods["data"]:
                if any(isinstance(x, ast.Call) and isinstance(x.func, ast.Attribute) and x.func.attr == "data" and src(x.func.value) == "super()" for x in own_nodes(f.node)):
                    return uuid_conditional(ctx, c)
        return None
    for s in stores:
        deps = cfg.control_deps(s)
        if not any(c.kind == "cond" and ((src(c.ast) == "uuid" and lab == "T") or (src(c.ast) == "not uuid" and lab == "F")) for c, lab in deps):
            return False
    return True


def _kwargs_reads(f: Func) -> Set[str]:
    """Keys read from the **kwargs parameter of f: kwargs.get('k'), kwargs['k'], 'k' in kwargs."""
    kw = f.node.args.kwarg.arg if f.node.args.kwarg else None
    out: Set[str] = set()
    if kw is None:
        return out
    for n in own_nodes(f.node):
        if isinstance(n, ast.Call) and isinstance(n.func, ast.Attribute) and n.func.attr in ("get", "pop") and src(n.func.value) == kw and n.args and isinstance(n.args[0], ast.Constant):
            out.add(str(n.args[0].value))
        elif isinstance(n, ast.Subscript) and src(n.value) == kw and isinstance(n.slice, ast.Constant) and isinstance(n.ctx, ast.Load):
            out.add(str(n.slice.value))
    return out


def consumed(ctx: Ctx, cls: Class) -> Dict[str, str]:
    """key -> where it is read, over the __init__ chain of cls and the helpers that receive **kwargs."""
    out: Dict[str, str] = {}
    init = cls.lookup_method("__init__")
    if init is None:
        return out
    seen: Set[int] = set()

    def visit(f: Func, self_cls: Optional[Class]) -> None:
        if id(f) in seen:
            return
        seen.add(id(f))
        a = f.node.args
        kw = a.kwarg.arg if a.kwarg else None
        if f.name == "__init__":
            for p in f.params[1:]:
                out.setdefault(p, f.qualname)
        for k in _kwargs_reads(f):
            out.setdefault(k, f.qualname)
        if kw is None:
            return
        # forwarded **kwargs
        for n in own_nodes(f.node):
            if isinstance(n, ast.Call) and any(k.arg is None and src(k.value) == kw for k in n.keywords):
                for e in ctx.cg.all_edges(f, self_cls):
                    if e.site is n and isinstance(e.target, Func) and not e.weak:
                        g = e.target
                        if g.name == "__init__" and e.kind == "construct":
                            continue  # a different object is built from the same kwargs
                        visit(g, self_cls if g.cls is not None and self_cls is not None and g.cls in self_cls.mro else None)
                        # explicit keywords given next to **kwargs are not consumed from data
        return

    visit(init, cls)
    return out


def reinit_sites(ctx: Ctx) -> List[Tuple[Func, ast.Call, str, Optional[ast.AST]]]:
    """(function, call, kind, data expression) for self.__init__(**d) and Cls(**d)+__dict__.update sites."""
    out = []
    for f in ctx.prog.funcs:
        if f.cls is None:
            continue
        upd = [n for n in own_nodes(f.node) if isinstance(n, ast.Call) and isinstance(n.func, ast.Attribute) and n.func.attr == "update" and src(n.func.value) == "self.__dict__"]
        for n in own_nodes(f.node):
            if not isinstance(n, ast.Call):
                continue
            star = [k.value for k in n.keywords if k.arg is None]
            if isinstance(n.func, ast.Attribute) and n.func.attr == "__init__" and src(n.func.value) == "self" and star:
                out.append((f, n, "self.__init__", star[0]))
            elif upd and isinstance(n.func, ast.Name) and n.func.id in ctx.prog.classes and star:
                # obj = Cls(**data); self.__dict__.update(obj.__dict__)
                out.append((f, n, f"{n.func.id}(**d)+__dict__.update", star[0]))
    return out
