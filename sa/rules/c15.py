"""C15 Grouping, ungrouping, sorting never lose, duplicate or split entries — conservation and ordering discipline."""

from __future__ import annotations

import ast
from typing import Dict, List, Optional, Set, Tuple

from ..cfg import Node
from ..core import Ctx, Report, snippet, where
from ..model import Class, Func, own_nodes, src
from ..pathsem import function_paths, resolve_local
from ..typeinf import classes_of, elem
from .c03 import SIBLINGS, r03_3
from .c19 import splice_rule
from .common import chain, deep_resolve, derived_names, element_placements, loop_body_paths, mentions, order_of, possible_classes

PROPERTY = "C15"
LEVEL = "other"
EXPLANATION = (
    "Decides conservation (every loop that moves items between the flat list, the heading buckets and the groups places "
    "each entry exactly once, in order; every non-empty bucket becomes a group that adopts the same objects; a bucket is "
    "never overwritten), the ordering discipline sorting relies on (sequence numbers decide first in every __lt__; source "
    "and destination comparison helpers agree), that list operations act on the stored list itself so a block moves as "
    "a unit, and that the TCAM estimate is a pure query (+1 for the ACL). Does not decide the outcome of sorts, the product "
    "formula of tcam_count or text equality after group/ungroup."
)
ASSUMPTIONS = ["list.sort / sorted are stable and use __lt__ only"]


def _static_elem(ctx: Ctx, f: Func, it: ast.AST) -> List[Class]:
    """Declared element classes of the iterated expression; for `self.X` the union over the subclasses that
    inherit the method (Acl inherits AceGroup's loops but holds groups too)."""
    out: List[Class] = []
    classes = [None]
    if f.cls is not None and chain(it) and chain(it)[0] == "self":
        classes = list(ctx.prog.subclasses(f.cls)) or [None]  # an override may still reach f through super()
    for c in classes:
        t = ctx.types.expr_type(it, f, c) if c is not None else ctx.types.expr_type(it, f)
        for x in classes_of(elem(t)):
            if x not in out:
                out.append(x)
    return out


def linear_loop(ctx: Ctx, rep: Report, f: Func, loop: Node, what: str, allow_zero_for: Set[str] = frozenset({"Remark"})) -> None:
    """R15.1: every path through the loop body places the element exactly once (0 allowed only on Remark-only paths)."""
    cfg = ctx.cfg(f)
    var = src(loop.ast.target)
    static = _static_elem(ctx, f, loop.ast.iter)
    n_paths = 0
    for path in loop_body_paths(cfg, loop):
        if path[-1][0] is cfg.raise_exit:
            continue
        atoms = [(n.ast, lab == "T") for n, lab in path if n.kind == "cond" and lab in ("T", "F")]
        poss = possible_classes(ctx, static, atoms, var)
        if poss is not None and not poss:
            continue
        places = []
        der = derived_names(path, var)
        for node, lab in path:
            if node.kind == "stmt" and node.ast is not None:
                places += element_placements(node.ast, var, der)
        n_paths += 1
        rep.instance()
        label = " & ".join(f"{snippet(t, 28)}={'T' if tr else 'F'}" for t, tr in atoms) or "unconditional"
        if len(places) == 1:
            rep.ok(f"{f.qualname} [{what}]: path [{label}]", f"element placed once ({places[0][0]})", where=where(f, loop.ast))
        elif len(places) == 0 and poss is not None and poss <= allow_zero_for:
            # a heading remark whose text is already the key of a block: the remark is dropped and what follows it joins the
            # FIRST block of that name (entries move up).  A violation of "never drops an entry" (C15) and of "valid lines
            # are never dropped" (C12) - listed as a known finding: the suite pins it (test_valid__group, LINE_DUPLICATE_REMARKS)
            rep.violation(f.qualname, f"{what}: a repeated heading remark is not placed", "a heading remark whose text equals an earlier heading is dropped, and the entries after it are appended to the first block of that name: an entry is lost and later entries move in front of earlier ones (first-match decisions can change)", where(f, loop.ast), inp="Acl('ip access-list extended A\\n remark === X\\n permit tcp any any eq 1\\n remark === Y\\n deny tcp any any\\n remark === X\\n permit tcp any any eq 3', group_by='=== ')  -> 5 items: X, eq 1, eq 3, Y, deny")
        else:
            who = "/".join(sorted(poss)) if poss else "an entry"
            rep.violation(
                f.qualname,
                f"{what}: path [{label}] places the element {len(places)} times",
                f"on this path {who} is {'lost' if not places else 'duplicated'}: grouping/ungrouping must carry every entry over exactly once",
                where(f, loop.ast),
                path=[repr(n) for n, _ in path],
            )
    if n_paths == 0:
        rep.violation(f.qualname, what, "no feasible path through the loop body", where(f, loop.ast))


def _group_func(ctx: Ctx) -> Func:
    """Acl.group with statement-level list comprehensions written out as loops (same elements, same order)."""
    from .normalise import normalised

    return normalised(ctx, ctx.func("Acl.group"), "multiret,valuecalls,decomp")


def r15_1(ctx: Ctx, rep: Report) -> None:
    rep.rule("R15.1")
    g = _group_func(ctx)
    cfg = ctx.cfg(g)
    loops = [n for n in cfg.live if n.kind == "for"]
    rep.require(len(loops) >= 3, "Acl.group no longer has its three loops (flatten, bucket, build)")
    # flatten loop: iterates self._items
    flat = [l for l in loops if src(l.ast.iter) in ("self._items", "self.items")]
    # the flatten loop is the one that fills a local list (another loop over the items may only look at them)
    filling = [l for l in flat if any(isinstance(n, ast.Call) and isinstance(n.func, ast.Attribute) and n.func.attr in ("append", "extend") and isinstance(n.func.value, ast.Name) for n in own_nodes(l.ast))]
    flat = filling or flat
    rep.require(bool(flat), "Acl.group: flatten loop over self._items vanished")
    linear_loop(ctx, rep, g, flat[0], "flatten")
    flat_acc = None
    for n in own_nodes(flat[0].ast):
        if isinstance(n, ast.Call) and isinstance(n.func, ast.Attribute) and n.func.attr in ("append", "extend"):
            flat_acc = src(n.func.value)
    from .common import single_env

    senv = single_env(g.node)  # the flattened list may travel through a temporary (an inlined helper's parameter)

    def _alias(e: ast.AST) -> str:
        for _ in range(4):
            if isinstance(e, ast.Name) and e.id in senv and isinstance(senv[e.id], ast.Name):
                e = senv[e.id]
            else:
                break
        return src(e)

    bucket = [l for l in loops if flat_acc and _alias(l.ast.iter) == flat_acc]
    rep.require(bool(bucket), "Acl.group: bucketing loop over the flattened list vanished")
    linear_loop(ctx, rep, g, bucket[0], "bucket")
    ug = ctx.func("Acl._ungroup")
    ucfg = ctx.cfg(ug)
    ul = [n for n in ucfg.live if n.kind == "for"]
    rep.require(bool(ul), "Acl._ungroup: loop vanished")
    linear_loop(ctx, rep, ug, ul[0], "ungroup")
    from .normalise import normalised as _nrm_lg

    lg = _nrm_lg(ctx, ctx.func("Acl.line.getter"), "decomp")  # the flattening written as a nested comprehension
    lcfg = ctx.cfg(lg)
    ll = [n for n in lcfg.live if n.kind == "for" and src(n.ast.iter) in ("self._items", "self.items")]
    rep.require(bool(ll), "Acl.line getter: flatten loop vanished")
    _line_getter_flatten(ctx, rep, lg, ll[0])
    splice_rule(ctx, rep, "AceGroup.ungroup_ports", rid="R15.1")
    splice_rule(ctx, rep, "Acl.ungroup_ports", rid="R15.1")
    rep.rule("R15.1")
    rep.floor(12, "loop-body paths that move items")


def _line_getter_flatten(ctx: Ctx, rep: Report, f: Func, loop: Node) -> None:
    """Acl.line: groups are flattened in order; every item (or each child of a group) is rendered once."""
    cfg = ctx.cfg(f)
    var = src(loop.ast.target)
    static = _static_elem(ctx, f, loop.ast.iter)
    for path in loop_body_paths(cfg, loop):
        if path[-1][0] is cfg.raise_exit:
            continue
        atoms = [(n.ast, lab == "T") for n, lab in path if n.kind == "cond" and lab in ("T", "F")]
        poss = possible_classes(ctx, static, atoms, var)
        if poss is not None and not poss:
            continue
        places = []
        inner_iter = None
        for node, lab in path:
            if node.kind == "stmt" and node.ast is not None:
                places += element_placements(node.ast, var)
            if node.kind == "for" and node is not loop:
                inner_iter = node
        rep.instance()
        label = " & ".join(f"{snippet(t, 28)}={'T' if tr else 'F'}" for t, tr in atoms) or "unconditional"
        if inner_iter is not None and src(inner_iter.ast.iter) in (f"{var}.items", f"{var}._items"):
            iv = src(inner_iter.ast.target)
            inner_places = []
            for node, lab in path:
                if node.kind == "stmt" and node.ast is not None:
                    inner_places += element_placements(node.ast, iv)
            inner_taken = any(node is inner_iter and lab == "body" for node, lab in path)
            if not inner_taken and not places:
                rep.ok(f"Acl.line getter: path [{label}] (empty group)", "renders nothing", nontrivial=False, where=where(f, loop.ast))
            elif len(inner_places) == 1 and not places:
                rep.ok(f"Acl.line getter: path [{label}]", f"a group is replaced by its children in order ({iv} placed once per child)", where=where(f, loop.ast))
            else:
                rep.violation("Acl.line.getter", f"path [{label}]", "a group's children are not rendered exactly once each (or the group itself is rendered too)", where(f, loop.ast))
        elif len(places) == 1:
            rep.ok(f"Acl.line getter: path [{label}]", "item rendered once", where=where(f, loop.ast))
        elif isinstance(path[-2][0].ast, ast.Continue) and inner_iter is None and not places and any("AceGroup" in src(t) and tr for t, tr in atoms):
            # the empty-group iteration of the inner loop (exit edge taken at once)
            rep.ok(f"Acl.line getter: path [{label}]", "empty group renders nothing", nontrivial=False, where=where(f, loop.ast))
        else:
            rep.violation("Acl.line.getter", f"path [{label}] renders the item {len(places)} times", "an item is missing from or duplicated in the rendered ACL", where(f, loop.ast))


def r15_2(ctx: Ctx, rep: Report) -> None:  # noqa: C901
    rep.rule("R15.2")
    g = _group_func(ctx)
    cfg = ctx.cfg(g)
    # bucket dict: subscript-stored with a list literal
    dict_name = None
    lit_store = None
    for n in cfg.live:
        if n.kind == "stmt" and isinstance(n.ast, ast.Assign) and isinstance(n.ast.targets[0], ast.Subscript) and isinstance(n.ast.value, ast.List) and n.ast.value.elts:
            dict_name = src(n.ast.targets[0].value)
            lit_store = n
    by_setdefault = False
    if lit_store is None:
        # `buckets.setdefault(heading, [item])`: opens the bucket with its heading unless it exists - guarded by itself
        for n in cfg.live:
            if n.kind == "stmt" and isinstance(n.ast, ast.Expr) and isinstance(n.ast.value, ast.Call) and isinstance(n.ast.value.func, ast.Attribute) and n.ast.value.func.attr == "setdefault" and len(n.ast.value.args) == 2 and isinstance(n.ast.value.args[1], ast.List) and n.ast.value.args[1].elts:
                dict_name = src(n.ast.value.func.value)
                lit_store = n
                by_setdefault = True
    rep.instance()
    if dict_name is None or lit_store is None:
        rep.violation("Acl.group", "bucket dictionary", "no bucket is opened with its heading remark", where(g))
        return
    # overwrite guard
    key = src(lit_store.ast.value.args[0]) if by_setdefault else src(lit_store.ast.targets[0].slice)
    deps = cfg.transitive_control_deps(lit_store)
    guarded = by_setdefault
    for c, lab in deps:
        if c.kind == "cond" and isinstance(c.ast, ast.Compare) and len(c.ast.ops) == 1 and src(c.ast.comparators[0]) == dict_name:
            if (isinstance(c.ast.ops[0], ast.NotIn) and lab == "T") or (isinstance(c.ast.ops[0], ast.In) and lab == "F"):
                guarded = True
    if guarded:
        rep.ok(f"Acl.group: {snippet(lit_store.ast)}", f"only when the heading is not yet a key of {dict_name}: a bucket that already holds entries is never replaced", where=where(g, lit_store.ast))
    else:
        rep.violation("Acl.group", snippet(lit_store.ast), "a second block with the same heading overwrites the bucket of the first: its entries vanish", where(g, lit_store.ast), inp="two blocks with the identical heading remark")
    # build loop: every non-empty bucket -> AceGroup(items=bucket) appended, in dict order
    from .common import single_env

    senv2 = single_env(g.node)

    def _names_dict(it: ast.AST) -> bool:
        """The loop iterates the bucket dict itself or a local that is bound once to it (an inlined helper's result)."""
        for x in ast.walk(it):
            if isinstance(x, ast.Name):
                e = x
                for _ in range(4):
                    if e.id == dict_name:
                        return True
                    nxt = senv2.get(e.id)
                    if isinstance(nxt, ast.Name):
                        e = nxt
                    else:
                        break
        return False

    builds = [n for n in cfg.live if n.kind == "for" and _names_dict(n.ast.iter)]
    rep.instance()
    if not builds:
        rep.violation("Acl.group", f"for ... in {dict_name}.items()", "the buckets are never turned into groups", where(g))
        return
    bl = builds[0]
    it = src(bl.ast.iter)
    if any(w in it for w in ("sorted", "reversed")):
        rep.violation("Acl.group", f"for ... in {it}", "buckets are not visited in insertion order: blocks are reordered", where(g, bl.ast))
    tvars = [src(e) for e in bl.ast.target.elts] if isinstance(bl.ast.target, ast.Tuple) else [src(bl.ast.target)]
    bvar = tvars[-1]
    okpaths = True
    for path in loop_body_paths(cfg, bl):
        if path[-1][0] is cfg.raise_exit:
            continue
        atoms = [(src(n.ast), lab == "T") for n, lab in path if n.kind == "cond"]
        nonempty = not any(a == bvar and not tr for a, tr in atoms)
        env: Dict[str, ast.AST] = {}
        appended = []
        for node, lab in path:
            if node.kind == "stmt" and isinstance(node.ast, ast.Assign) and isinstance(node.ast.targets[0], ast.Name):
                env[node.ast.targets[0].id] = node.ast.value
            if node.kind == "stmt" and node.ast is not None:
                for x in ast.walk(node.ast):
                    if isinstance(x, ast.Call) and isinstance(x.func, ast.Attribute) and x.func.attr == "append" and len(x.args) == 1:
                        appended.append(resolve_local(x.args[0], env))
        if nonempty:
            good = [a for a in appended if isinstance(a, ast.Call) and src(a.func) == "AceGroup" and any(k.arg == "items" and src(k.value) == bvar for k in a.keywords)]
            if len(good) != 1 or len(appended) != 1:
                okpaths = False
                rep.violation("Acl.group", f"non-empty bucket {bvar}", "a non-empty bucket does not become exactly one AceGroup(items=<bucket>) in the result", where(g, bl.ast))
    if okpaths:
        rep.ok(f"Acl.group: for {', '.join(tvars)} in {it}", f"every non-empty bucket becomes one AceGroup(items={bvar}), in insertion order", where=where(g, bl.ast))
    # the result list is stored
    rep.instance()
    st = [n for n in own_nodes(g.node) if isinstance(n, ast.Assign) and any(isinstance(t, ast.Attribute) and src(t.value) == "self" and t.attr == "_items" for t in n.targets)]
    if st:
        # ... as it was built: in the order the buckets were opened (the order of the headings in the text)
        state, why = order_of(ctx, g, st[-1].value)
        if state in ("sorted", "reversed", "unordered"):
            rep.violation("Acl.group", snippet(st[-1]), f"the blocks are stored {state} ({why}), not in the order their headings stand in the text: unnumbered blocks all compare by their heading text, so item order is no longer line order", where(g, st[-1]), inp="Acl('ip access-list extended A\n remark === WEB\n permit tcp any any eq 80\n remark === DNS\n permit udp any any eq 53', group_by='=== ').items  ->  DNS block first")
        else:
            rep.ok(f"Acl.group: {snippet(st[-1])}", "groups replace the flat list", where=where(g, st[-1]))
    else:
        rep.violation("Acl.group", "self._items = ...", "the grouped list is never stored", where(g))
    adoption_rule(ctx, rep)


def adoption_rule(ctx: Ctx, rep: Report, rid: Optional[str] = None) -> None:
    """AceGroup.items setter keeps Ace/Remark objects themselves (identifiers survive grouping)."""
    if rid:
        rep.rule(rid)
    rep.instance()
    s = ctx.func("AceGroup.items.setter")
    from .common import per_item_unit

    unit = per_item_unit(ctx, s)
    adopted = False
    judged = False
    if unit is not None:
        uf, var, paths, _anchor, is_helper = unit
        for path in paths:
            atoms = [(n.ast, lab == "T") for n, lab in path if n.kind == "cond" and lab in ("T", "F")]
            if any("isinstance" in src(t) and "Ace" in src(t) and tr for t, tr in atoms):
                judged = True
                if is_helper:
                    # the helper hands the very object back
                    rets = [n.ast for n, _ in path if n.kind == "stmt" and isinstance(n.ast, ast.Return)]
                    adopted = len(rets) == 1 and rets[0].value is not None and src(rets[0].value) == var
                    continue
                pl = []
                for node, lab in path:
                    if node.kind == "stmt" and node.ast is not None:
                        pl += element_placements(node.ast, var)
                adopted = len(pl) == 1 and pl[0][0] == "append"
    if not judged:
        # no path of the per-item conversion is selected by `isinstance(item, <entry classes>)` (a table of converters picked
        # by type, say): which statement handles a ready-made entry cannot be read off - not judged, never an alarm
        rep.note("R15.2 AceGroup.items setter: no isinstance-selected path for ready-made entries found (dispatch through a table?) - adoption of the same objects not judged")
        return
    if adopted:
        rep.ok("AceGroup.items setter", "adopts Ace/Remark objects as they are (same object appended): identifiers survive grouping", where=where(s))
    else:
        rep.violation("AceGroup.items.setter", "object branch", "grouped entries are not the same objects as before (copied, filtered or dropped)", where(s))


def r15_3(ctx: Ctx, rep: Report) -> None:
    rep.rule("R15.3")
    for cn in ("Ace", "Remark", "AceGroup", "Acl"):
        cls = ctx.cls(cn)
        f = cls.methods.get("__lt__")
        if f is None:
            continue
        from .normalise import normalised as _nrm

        f = _nrm(ctx, f, "localcalls")  # a local `def head(members): return ...` is read where it is called
        rep.instance()
        other = f.params[1]
        bad = None
        seen_seq_test = False
        for p in function_paths(ctx.cfg(f)):
            if p.raises:
                continue
            first_seq = None
            prior_field = None
            for t, truth in p.atoms:
                if isinstance(t, ast.Name):
                    t = deep_resolve(t, p.env)  # `is_block = isinstance(other, AceGroup)` ... `if is_block and ...`
                if isinstance(t, ast.Compare) and len(t.ops) == 1 and isinstance(t.ops[0], (ast.Eq, ast.NotEq)):
                    # `sequence = other.sequence` ... `self._sequence == sequence`: a local standing for the attribute
                    tl = deep_resolve(t.left, p.env) if isinstance(t.left, ast.Name) else t.left
                    tr_ = deep_resolve(t.comparators[0], p.env) if isinstance(t.comparators[0], ast.Name) else t.comparators[0]
                    cl, cr = chain(tl), chain(tr_)
                    if cl and cr and cl[-1].lstrip("_") == cr[-1].lstrip("_") == "sequence" and {cl[0], cr[0]} == {"self", other}:
                        differ = truth == isinstance(t.ops[0], ast.NotEq)
                        first_seq = differ
                        break
                # anything that reads a field of self/other before the sequence test (hasattr/isinstance are not fields)
                if not (isinstance(t, ast.Call) and isinstance(t.func, ast.Name) and t.func.id in ("hasattr", "isinstance")):
                    prior_field = t
            if first_seq is None:
                # a path that orders the two entries by some attribute without having looked at the sequence numbers
                r0 = deep_resolve(p.ret, p.env) if p.ret is not None else None
                if isinstance(r0, ast.Compare) and len(r0.ops) == 1 and isinstance(r0.ops[0], (ast.Lt, ast.LtE, ast.Gt, ast.GtE)) and mentions(r0, "self") and mentions(r0, other):
                    cl0, cr0 = chain(r0.left), chain(r0.comparators[0])
                    if not (cl0 and cr0 and cl0[-1].lstrip("_") == cr0[-1].lstrip("_") == "sequence"):
                        bad = (f"`return {snippet(r0)}` on a path that never compared the sequence numbers", p)
                        break
                continue
            seen_seq_test = True
            if prior_field is not None:
                bad = (f"`{snippet(prior_field)}` is consulted before the sequence numbers", p)
                break
            if first_seq:
                r = deep_resolve(p.ret, p.env) if p.ret is not None else None

                def own_number(e: ast.AST, who: str) -> bool:
                    # `<who>.sequence`, or `<who>.sequence or <a number taken from <who>'s members>` (a block that has no
                    # number of its own is ordered by its first member's)
                    if isinstance(e, ast.BoolOp) and isinstance(e.op, ast.Or) and len(e.values) == 2:
                        rest = e.values[1]
                        roots = {z.id for z in ast.walk(rest) if isinstance(z, ast.Name)}
                        if not (any(isinstance(z, ast.Attribute) and z.attr.lstrip("_") == "sequence" for z in ast.walk(rest)) and roots <= {who}):
                            return False  # the replacement for <who>'s missing number must be taken from <who>'s own members
                        e = e.values[0]
                    c_ = chain(e) or [""]
                    return c_[0] == who and c_[-1].lstrip("_") == "sequence"

                ok = isinstance(r, ast.Compare) and len(r.ops) == 1 and isinstance(r.ops[0], ast.Lt) and own_number(r.left, "self") and own_number(r.comparators[0], other)
                if not ok:
                    bad = (f"with different sequence numbers the result is `{snippet(p.ret) if p.ret is not None else None}`, not self.sequence < other.sequence", p)
                    break
        if bad:
            rep.violation(f.qualname, bad[0], "sorting restores the numbered order only if differing sequence numbers decide the comparison first", where(f), inp="acl.resequence(); shuffle items; acl.sort()")
        elif not seen_seq_test:
            rep.violation(f.qualname, "sequence comparison", "the ordering does not compare sequence numbers at all", where(f))
        else:
            rep.ok(f"{f.qualname}", "differing sequence numbers decide first: self.sequence < other.sequence", where=where(f))
    rep.floor(4, "__lt__ of Ace, Remark, AceGroup, Acl")
    r03_3(ctx, rep, pairs=SIBLINGS[2:], rid="R15.3")
    steps_agree(ctx, rep)
    block_tie_is_numeric(ctx, rep)
    unnumbered_block_is_not_zero(ctx, rep)


def block_tie_is_numeric(ctx: Ctx, rep: Report, rid: str = "R15.17") -> None:
    """Two blocks with the same own number (0: blocks that `group()` has just made from a flat, numbered list) are not
    ordered by their rendered text alone: the text begins with the decimal number of the first member, and as text
    '100 remark' < '80 remark' - sort() after resequence() then moves the later block in front of the earlier one."""
    from .common import single_env

    rep.rule(rid)
    f = ctx.prog.find_func("AceGroup.__lt__")
    if f is None:
        rep.note(f"{rid} AceGroup.__lt__ not present")
        return
    from .normalise import normalised as _nrm2

    f = _nrm2(ctx, f, "localcalls")
    other = f.params[1] if len(f.params) > 1 else "other"
    env = single_env(f.node)
    n = 0
    def _is_block_test(t: ast.AST) -> bool:
        if isinstance(t, ast.Name) and t.id in env:
            t = env[t.id]  # `is_group = isinstance(other, AceGroup)` ... `if is_group:`
        return isinstance(t, ast.Call) and src(t.func) == "isinstance" and len(t.args) == 2 and src(t.args[0]) == other and "AceGroup" in src(t.args[1])

    # the returns that answer for two blocks: in the body of `if isinstance(other, AceGroup)`, or behind a guard that
    # lets only blocks through (`if not is_group: raise`) - read off the paths on which the block test holds
    block_returns: List[ast.Return] = [y for br in own_nodes(f.node) if isinstance(br, ast.If) and _is_block_test(br.test) for b in br.body for y in ast.walk(b) if isinstance(y, ast.Return) and y.value is not None]
    fcfg = ctx.cfg(f)
    for p_ in function_paths(fcfg):
        if p_.raises or p_.ret is None:
            continue
        holds = False
        for t_, tr_ in p_.atoms:
            neg = False
            while isinstance(t_, ast.UnaryOp) and isinstance(t_.op, ast.Not):
                neg, t_ = not neg, t_.operand
            if _is_block_test(t_) and (tr_ != neg):
                holds = True
        if holds:
            for nd_, _lab in p_.nodes:
                if nd_.kind == "stmt" and isinstance(nd_.ast, ast.Return) and nd_.ast.value is not None and not any(nd_.ast is y for y in block_returns):
                    block_returns.append(nd_.ast)
    for br in [None]:
        for r in block_returns:
            v = deep_resolve(r.value, env)
            if not (isinstance(v, ast.Compare) and len(v.ops) == 1):
                continue
            n += 1
            rep.instance()
            sides = [v.left, v.comparators[0]]
            texty = lambda e: (isinstance(e, ast.Call) and src(e.func) == "str" and len(e.args) == 1 and src(e.args[0]) in ("self", other)) or (isinstance(e, ast.Attribute) and e.attr.lstrip("_") == "line" and src(e.value) in ("self", other))  # noqa: E731
            if all(texty(e) for e in sides):
                rep.violation(f.qualname, snippet(r, 60), "blocks with equal own numbers are ordered by their rendered text only, which begins with the decimal sequence number of the first member: '100 remark ...' < '80 remark ...', so after resequence() the blocks that group() made from a flat list (own number 0) are sorted out of their numbered order", where(f, r), inp="acl = Acl(text); acl.resequence(80, 20); acl.group('=== '); acl.sort()")
            elif any(isinstance(z, ast.Attribute) and z.attr.lstrip("_") in ("sequence", "items") for e in sides for z in ast.walk(e)):
                rep.ok(f"{f.qualname}: {snippet(r, 50)}", "blocks with equal own numbers are compared through their members / the members' numbers before any text", where=where(f, r))
            else:
                rep.note(f"{rid} {snippet(r, 60)}: neither a text comparison nor a comparison of members - not judged")
    if n == 0:
        rep.note(f"{rid} no comparison of two blocks recognised in AceGroup.__lt__ - not judged")


def unnumbered_block_is_not_zero(ctx: Ctx, rep: Report, rid: str = "R15.18") -> None:
    """A block that `group()` has just made has no number of its own (0), the blocks it rebuilt keep theirs (R16.23): where
    `AceGroup.__lt__` orders two BLOCKS whose own numbers differ, a missing number is replaced by the number of the block's
    first member - compared raw, the new block (0) sorts in front of every numbered block although its lines carry the
    highest numbers."""
    rep.rule(rid)
    f = ctx.prog.find_func("AceGroup.__lt__")
    if f is None:
        rep.note(f"{rid} AceGroup.__lt__ not present")
        return
    from .normalise import normalised as _nrm2

    f = _nrm2(ctx, f, "localcalls")
    other = f.params[1] if len(f.params) > 1 else "other"
    n = 0
    for p in function_paths(ctx.cfg(f)):
        if p.raises or p.ret is None:
            continue
        verdicts = set()
        not_block = False
        for t, truth in p.atoms:
            if isinstance(t, ast.Name):
                t = deep_resolve(t, p.env)
            if isinstance(t, ast.Compare) and len(t.ops) == 1 and isinstance(t.ops[0], (ast.Eq, ast.NotEq)):
                cl, cr = chain(t.left), chain(t.comparators[0])
                if cl and cr and cl[-1].lstrip("_") == cr[-1].lstrip("_") == "sequence":
                    verdicts.add(truth == isinstance(t.ops[0], ast.NotEq))
            if isinstance(t, ast.Call) and src(t.func) == "isinstance" and len(t.args) == 2 and src(t.args[0]) == other and "AceGroup" in src(t.args[1]) and not truth:
                not_block = True
        if verdicts == {True, False}:
            continue  # the numbers both differ and are equal: not a path
        differ = verdicts == {True}
        if not differ or not_block:
            continue
        r = deep_resolve(p.ret, p.env)
        if not (isinstance(r, ast.Compare) and len(r.ops) == 1):
            continue
        n += 1
        rep.instance()
        sides = [r.left, r.comparators[0]]
        raw = [e for e in sides if (chain(e) or [""])[-1].lstrip("_") == "sequence" and not isinstance(e, ast.BoolOp)]
        if len(raw) == 2:
            rep.violation(f.qualname, snippet(p.ret, 50), "two blocks whose own numbers differ are ordered by those numbers as they are, and a block that group() has just made has 0: after `resequence(); group(); sort()` the new block moves in front of the rebuilt, numbered blocks although its lines carry the highest numbers", where(f), inp="acl = Acl(text, group_by='=== '); acl.extend([Remark('remark === C'), Ace('permit ip any any')]); acl.resequence(); acl.group('=== '); acl.sort()")
            break
        rep.ok(f"{f.qualname}: {snippet(p.ret, 50)}", "a block without own number is ordered by the number of its first member", where=where(f))
    if n == 0:
        rep.note(f"{rid} no path of AceGroup.__lt__ that orders two blocks with different numbers - not judged")


def steps_agree(ctx: Ctx, rep: Report, rid: str = "R15.16") -> None:
    """The order of two entries without (or with equal) numbers is a chain of steps, one per field; the source step and the
    destination step of the same kind (address, port) are the same step modulo src<->dst: a step that is taken under a
    different condition on one side only (`and` on one, `or` on the other) orders by that side's field when the other
    would not - sort() then departs from the documented field order."""
    import re as _re

    rep.rule(rid)
    f = ctx.prog.find_func("Ace.__lt__")
    if f is None:
        rep.note(f"{rid} Ace.__lt__ not present")
        return
    side = lambda t: {m for m in ("src", "dst") if _re.search(r"\b_?" + m + r"(addr|port)\b", t)}  # noqa: E731
    steps: Dict[str, List[ast.If]] = {"src": [], "dst": []}
    for x in own_nodes(f.node):
        if isinstance(x, ast.If):
            sd = side(ast.unparse(x.test))
            if len(sd) == 1:
                steps[sd.pop()].append(x)
    rep.instance()
    if not steps["src"] and not steps["dst"]:
        rep.note(f"{rid} no per-side steps in Ace.__lt__ (merged into a helper?) - not judged")
        return
    norm = lambda n: _re.sub(r"src(?=addr|port)", "dst", ast.unparse(n))  # noqa: E731
    src_t = sorted(norm(x) for x in steps["src"])
    dst_t = sorted(norm(x) for x in steps["dst"])
    if src_t == dst_t:
        rep.ok("Ace.__lt__", f"{len(src_t)} source steps and {len(dst_t)} destination steps agree modulo src<->dst", where=where(f))
    else:
        only_s = [x for x in steps["src"] if norm(x) not in dst_t]
        only_d = [x for x in steps["dst"] if norm(x) not in src_t]
        at = (only_s or only_d)[0]
        other_ = (only_d or only_s)[0] if (only_d and only_s) else None
        rep.violation("Ace.__lt__", f"if {snippet(at.test, 60)}" + (f"  <>  if {snippet(other_.test, 60)}" if other_ is not None else ""), "the source and the destination step of the comparison disagree (after src<->dst renaming): one side's field decides the order under a condition the other side does not use, so entries are ordered by a later field while an earlier one differs", where(f, at), inp="two unnumbered entries of which exactly one has a port on that side; acl.sort()")


def ungroup_forgets_grouping(ctx: Ctx, rep: Report, rid: str = "R15.9") -> None:
    """Ungrouping is lasting: Acl.ungroup clears the grouping prefix before (or when) it stores the flat list - the
    items setter re-groups whenever a prefix is set, so a kept prefix makes the next assignment or copy() group again."""
    rep.rule(rid)
    f = ctx.func("Acl.ungroup")
    cfg = ctx.cfg(f)
    rep.instance()

    def clears(n: Node) -> bool:
        if n.kind == "stmt" and isinstance(n.ast, ast.Assign):
            return any(isinstance(t, ast.Attribute) and src(t.value) == "self" and t.attr in ("_group_by", "group_by") for t in n.ast.targets) and isinstance(n.ast.value, ast.Constant) and not n.ast.value.value
        return False

    if cfg.all_paths_pass(cfg.entry, cfg.exit, clears, labels_avoid=("exc",)):
        rep.ok("Acl.ungroup", "clears the grouping prefix on every path", where=where(f))
    else:
        rep.violation("Acl.ungroup", "self._group_by", "the grouping prefix survives ungroup(): the ACL looks flat, but the next `acl.items = ...` or copy() silently groups it again", where(f), inp="acl.ungroup(); acl.items = list(reversed(acl.items)); acl.sort()")
    rep.instance()
    st = [n for n in own_nodes(f.node) if isinstance(n, ast.Assign) and any(isinstance(t, ast.Attribute) and src(t.value) == "self" and t.attr in ("items", "_items") for t in n.targets)]
    if st and "_ungroup" in src(st[-1].value):
        rep.ok(f"Acl.ungroup: {snippet(st[-1], 60)}", "stores the flattened list", where=where(f, st[-1]))
    else:
        rep.violation("Acl.ungroup", "flat list", "the flattened item list is not stored", where(f))


def list_api_forwarding(ctx: Ctx, rep: Report, rid: str = "R15.10") -> None:
    """The list-like methods of Group hand their arguments to the list method of the same name unchanged
    (`pop(0)` must pop index 0, not `0 or -1`)."""
    rep.rule(rid)
    group = ctx.cls("Group")
    n = 0
    for name in ("pop", "insert", "append", "extend", "sort", "reverse", "remove", "index", "count"):
        m = group.methods.get(name)
        if m is None:
            continue
        calls = [c for c in own_nodes(m.node) if isinstance(c, ast.Call) and isinstance(c.func, ast.Attribute) and c.func.attr == name and src(c.func.value) in ("self.items", "self._items")]
        if not calls:
            continue
        n += 1
        rep.instance()
        c = calls[0]
        a = m.node.args
        names = {x.arg for x in a.args[1:] + a.kwonlyargs} | ({a.vararg.arg} if a.vararg else set()) | ({a.kwarg.arg} if a.kwarg else set())
        bad = None
        for e in list(c.args) + [k.value for k in c.keywords]:
            inner = e.value if isinstance(e, ast.Starred) else e
            if isinstance(inner, ast.Call) and isinstance(inner.func, ast.Name) and inner.func.id in ("list", "tuple") and len(inner.args) == 1 and not inner.keywords:
                inner = inner.args[0]  # an element-for-element copy of the argument
            if not (isinstance(inner, ast.Name) and inner.id in names):
                bad = e
        if bad is not None:
            rep.violation(m.qualname, snippet(c), f"the argument `{snippet(bad)}` is not the caller's argument itself: the list operation acts on another position/value than the one asked for", where(m, c), inp="acl.pop(0) removes the last rule")
        else:
            rep.ok(f"{m.qualname}: {snippet(c, 50)}", "arguments forwarded unchanged", nontrivial=False, where=where(m, c))
    rep.floor(3, "list-like methods of Group that delegate to the item list")


def items_setter_store(ctx: Ctx, rep: Report, rid: str = "R15.8") -> None:
    """A container's items setter stores the list it built - one element per supplied item, in the supplied order - and
    does not push the elements through the list-like helper methods of Group afterwards (update/add skip duplicates,
    delete removes by equality): grouping and re-initialisation go through this setter."""
    rep.rule(rid)
    group = ctx.cls("Group")
    list_api = set(group.methods) - {"__init__"}
    n = 0
    for q in ("AceGroup.items.setter", "Acl.items.setter", "AddrGroup.items.setter"):
        f = ctx.prog.find_func(q)
        if f is None or len(f.params) < 2:
            continue
        from .normalise import normalised as _nrm

        f = _nrm(ctx, f, "gencalls")  # `self._items = list(self._iter_items(items))`: the generator's loop is read in place
        n += 1
        rep.instance()
        param = f.params[1]
        stores = [x for x in own_nodes(f.node) if isinstance(x, ast.Assign) and any(isinstance(t, ast.Attribute) and src(t.value) == "self" and t.attr == "_items" for t in x.targets)]
        calls = [x for x in own_nodes(f.node) if isinstance(x, ast.Call) and isinstance(x.func, ast.Attribute) and src(x.func.value) == "self" and x.func.attr in list_api and f.cls is not None and f.cls.lookup_method(x.func.attr) is group.methods.get(x.func.attr)]
        if calls:
            rep.violation(q, snippet(calls[0]), f"the setter fills the container through Group.{calls[0].func.attr}(): entries equal to an earlier one are skipped (or removed), so grouping / copying drops lines", where(f, calls[0]), inp="an ACL block with two identical remark lines; acl.group('== ')")
            continue
        if not stores:
            rep.violation(q, "self._items = ...", "the converted list is never stored", where(f))
            continue
        state, why = order_of(ctx, f, stores[-1].value)
        if state.startswith("ordered:"):
            rep.ok(f"{q}: {snippet(stores[-1], 50)}", f"the list built from `{param}` in its order ({why}); no list-helper call", where=where(f, stores[-1]))
        else:
            rep.violation(q, snippet(stores[-1]), f"the stored list is not the per-item conversion of `{param}` in order: {state} ({why})", where(f, stores[-1]))
    rep.floor(3, "items setters of the containers")


def lt_field_agreement(ctx: Ctx, rep: Report, rid: str = "R15.7") -> None:
    """In the ordering of ACEs every test that looks at a field of both entries looks at the same field of both
    (a guard `self._dstport.operator and other.srcport.operator` decides the destination step by the source port)."""
    from .common import norm_field

    rep.rule(rid)
    cls = ctx.cls("Ace")
    funcs = [f for f in cls.all_funcs() if f.name == "__lt__" or f.name.startswith("_lt__")]
    rep.require(bool(funcs), "Ace.__lt__ vanished")
    n = 0
    for f in funcs:
        if len(f.params) < 2:
            continue
        other = f.params[1]
        tests: List[ast.AST] = []
        for x in own_nodes(f.node):
            if isinstance(x, (ast.If, ast.IfExp, ast.While)):
                tests.append(x.test)
            elif isinstance(x, ast.Return) and isinstance(x.value, (ast.Compare, ast.BoolOp)):
                tests.append(x.value)
        for t in tests:
            sf = {norm_field(cls, c[1]) for c in chains_in_(t) if c[0] == "self" and len(c) >= 3}
            of = {norm_field(cls, c[1]) for c in chains_in_(t) if c[0] == other and len(c) >= 3}
            if not sf or not of:
                continue
            n += 1
            rep.instance()
            if sf == of:
                rep.ok(f"{f.qualname}: {snippet(t, 60)}", f"both entries' {sorted(sf)}", nontrivial=False, where=where(f, t))
            else:
                rep.violation(f.qualname, snippet(t), f"the test reads {sorted(sf)} of this entry but {sorted(of)} of the other: one step of the ordering is decided by another field", where(f, t), inp="two ACEs without source ports that differ in the destination port: eq 1000 sorts before eq 999")
    rep.floor(4, "tests of Ace.__lt__ that read a field of both entries")


def chains_in_(e: ast.AST):
    from .common import chains_in

    return chains_in(e)


def r15_4(ctx: Ctx, rep: Report) -> None:
    rep.rule("R15.4")
    for cn in ("AceGroup", "Acl", "AddrGroup"):
        cls = ctx.cls(cn)
        g = cls.getters.get("items") or cls.lookup_getter("items")
        if g is None:
            continue
        rep.instance()
        rets = [n.value for n in own_nodes(g.node) if isinstance(n, ast.Return)]
        if len(rets) == 1 and rets[0] is not None and src(rets[0]) == "self._items":
            rep.ok(f"{cn}.items getter", "returns the stored list itself: in-place list operations act on the ACL", where=where(g))
        else:
            rep.violation(g.qualname, f"return {snippet(rets[0]) if rets and rets[0] is not None else ''}", "the getter hands out something other than the stored list: sort/reverse/insert/pop through the list interface silently do nothing", where(g), inp="acl.sort(); acl.items unchanged")
    group = ctx.cls("Group")
    inplace = {"sort", "reverse", "insert", "pop", "remove", "append", "extend", "delete", "add", "update", "__delitem__"}
    for name in sorted(inplace):
        m = group.methods.get(name)
        if m is None:
            continue
        rep.instance()
        w = {(a, k) for (r, a, k) in ctx.effects.summary(m).writes if r == "self"}
        expect = {"delete": {"remove"}, "add": {"append"}, "update": {"add", "append", "extend"}, "__delitem__": {"__delitem__"}}.get(name, {name})
        calls_self_items = any(
            isinstance(n, ast.Call) and isinstance(n.func, ast.Attribute) and n.func.attr in expect and src(n.func.value) in ("self.items", "self")
            for n in own_nodes(m.node)
        ) or (name == "__delitem__" and any(isinstance(n, ast.Delete) for n in own_nodes(m.node)))
        extra = {x for x in w if x[0] not in ("items",)}
        if not calls_self_items:
            rep.violation(m.qualname, "body", "the list operation does not act on self.items", where(m))
        elif extra:
            rep.violation(m.qualname, f"writes {sorted(extra)}", "a list operation must only rearrange self.items (a block moves as a unit, its inner list untouched)", where(m))
        else:
            rep.ok(m.qualname, "acts on self.items in place only", where=where(m))
    rep.floor(10, "items getters and Group list operations")


def r15_5(ctx: Ctx, rep: Report) -> None:
    rep.rule("R15.5")
    for q in ("AceGroup.tcam_count", "Acl.tcam_count"):
        f = ctx.func(q)
        rep.instance()
        w = sorted(ctx.effects.self_writes(f))
        if w:
            rep.violation(q, f"writes {w}", "the estimate is a query: it must not change the ACL", where(f))
        else:
            rep.ok(f"{q}: write-set", "empty", where=where(f))
    f = ctx.func("Acl.tcam_count")
    rep.instance()
    ok = False
    for p in function_paths(ctx.cfg(f)):
        if p.raises or p.ret is None:
            continue
        r = deep_resolve(p.ret, p.env)
        incs = [n for n, _ in p.nodes if n.kind == "stmt" and isinstance(n.ast, ast.AugAssign)]
        base_super = any("super().tcam_count()" in src(v) for v in p.env.values()) or (r is not None and "super().tcam_count()" in src(r))
        plus_one = (len(incs) == 1 and isinstance(incs[0].ast.op, ast.Add) and isinstance(incs[0].ast.value, ast.Constant) and incs[0].ast.value.value == 1) or (isinstance(r, ast.BinOp) and isinstance(r.op, ast.Add) and any(isinstance(x, ast.Constant) and x.value == 1 for x in (r.left, r.right)) and not incs)
        ok = base_super and plus_one
    if ok:
        rep.ok("Acl.tcam_count", "super().tcam_count() + 1", where=where(f))
    else:
        rep.violation("Acl.tcam_count", "value", "the ACL estimate must be the group estimate plus exactly one", where(f))


def r15_6(ctx: Ctx, rep: Report) -> None:
    """Additivity of the estimate: per item the counter advances by the nested estimate (group), by nothing (remark),
    by 1 (plain ACE) or by a product of two per-side member counts (ACE with address groups)."""
    rep.rule("R15.6")
    f = ctx.func("AceGroup.tcam_count")
    cfg = ctx.cfg(f)
    loops = [n for n in cfg.live if n.kind == "for"]
    rep.require(bool(loops), "AceGroup.tcam_count: loop vanished")
    loop = loops[0]
    var = src(loop.ast.target)
    static = _static_elem(ctx, f, loop.ast.iter)
    rets = [n for n in cfg.live if n.kind == "stmt" and isinstance(n.ast, ast.Return) and n.ast.value is not None]
    counter = src(rets[0].ast.value) if rets else "counter"

    def side_ok(e: Optional[ast.AST], depth: int = 0) -> bool:
        # 1 | len(<var>.<addr>.items) or 1
        if isinstance(e, ast.Constant) and e.value == 1:
            return True
        if isinstance(e, ast.BoolOp) and isinstance(e.op, ast.Or) and len(e.values) == 2:
            a, b = e.values
            if isinstance(b, ast.Constant) and b.value == 1 and isinstance(a, ast.Call) and src(a.func) == "len" and a.args:
                c = chain(a.args[0])
                return bool(c) and c[0] == var and c[-1] in ("items", "_items") and "addr" in c[1]
        if isinstance(e, ast.IfExp):
            return side_ok(e.body) and side_ok(e.orelse)
        if isinstance(e, ast.Call) and depth < 2:
            # per-side count extracted into a helper: every value it can return must be 1 or `len(members) or 1`
            from .common import _SubstMany, bind_call, callee_of_self_call, clone

            m = callee_of_self_call(ctx, f, e)
            if m is None and isinstance(e.func, ast.Name):
                # a local function defined inside tcam_count
                m = next((h_ for h_ in ctx.prog.funcs if h_.parent is f and h_.name == e.func.id), None)
            if m is not None:
                binding = bind_call(m, e, bound=m.parent is None)
                rets = [n for n in own_nodes(m.node) if isinstance(n, ast.Return)]
                if binding is not None and rets and not (set(binding) & {n.id for n in own_nodes(m.node) if isinstance(n, ast.Name) and isinstance(n.ctx, ast.Store)}):
                    return all(r.value is not None and side_ok(_SubstMany(binding).visit(clone(r.value)), depth + 1) for r in rets)
        return False

    for path in loop_body_paths(cfg, loop):
        if path[-1][0] is cfg.raise_exit:
            continue
        atoms = [(n.ast, lab == "T") for n, lab in path if n.kind == "cond" and lab in ("T", "F")]
        poss = possible_classes(ctx, static, atoms, var)
        if poss is not None and not poss:
            continue
        env: Dict[str, ast.AST] = {}
        incs: List[ast.AST] = []
        for node, lab in path:
            if node.kind == "stmt" and isinstance(node.ast, ast.Assign) and isinstance(node.ast.targets[0], ast.Name):
                env[node.ast.targets[0].id] = node.ast.value
            if node.kind == "stmt" and isinstance(node.ast, ast.AugAssign) and src(node.ast.target) == counter:
                if not isinstance(node.ast.op, ast.Add):
                    incs.append(ast.Constant(value="<non-additive>"))
                else:
                    incs.append(node.ast.value)
        rep.instance()
        label = " & ".join(f"{snippet(t, 26)}={'T' if tr else 'F'}" for t, tr in atoms) or "unconditional"
        is_group = poss is not None and poss <= {"AceGroup", "Acl"}
        is_ace = poss is not None and poss == {"Ace"}
        no_ace = poss is not None and "Ace" not in poss and not is_group
        if is_group:
            good = len(incs) == 1 and isinstance(incs[0], ast.Call) and src(incs[0]) == f"{var}.tcam_count()"
            want = f"exactly {var}.tcam_count()"
        elif no_ace:
            good = not incs
            want = "nothing (not an ACE)"
        elif is_ace:
            good = False
            if len(incs) == 1:
                v = incs[0]
                if isinstance(v, ast.Constant) and v.value == 1:
                    good = True
                elif isinstance(v, ast.BinOp) and isinstance(v.op, ast.Mult):
                    l = resolve_local(v.left, env)
                    r = resolve_local(v.right, env)
                    # a side counter initialised to 1 and conditionally replaced resolves to its last binding on the path
                    good = side_ok(l) and side_ok(r)
            want = "1, or (source members or 1) * (destination members or 1)"
        else:
            good = True
            want = ""
        if good:
            rep.ok(f"AceGroup.tcam_count: path [{label}]", f"adds {' + '.join(snippet(i, 40) for i in incs) or '0'}", where=where(f, loop.ast))
        else:
            rep.violation("AceGroup.tcam_count", f"path [{label}] adds {' + '.join(snippet(i, 40) for i in incs) or '0'}", f"the estimate must add {want} for this kind of item: otherwise it is not 1 + the sum over ACEs of source x destination member counts and changes under grouping", where(f, loop.ast), inp="a grouped ACL with a heading-only block")


def block_key_is_heading(ctx: Ctx, rep: Report, rid: str = "R15.12") -> None:
    """A block is opened by a heading remark and is named by that remark's whole text: two different headings never
    share a block (a key made from a part of the text merges 'C-1, web' and 'C-1, db')."""
    from .common import single_env

    rep.rule(rid)
    f = _group_func(ctx)  # helpers of the grouping (flatten, split by remark) are read in place
    env = single_env(f.node)
    n = 0
    for lp in [x for x in own_nodes(f.node) if isinstance(x, ast.For) and isinstance(x.target, ast.Name)]:
        lv = lp.target.id
        keys = set()
        for x in ast.walk(lp):
            if isinstance(x, ast.Call) and isinstance(x.func, ast.Attribute) and x.func.attr == "append" and isinstance(x.func.value, ast.Subscript) and isinstance(x.func.value.slice, ast.Name) and x.args and src(x.args[0]) == lv:
                keys.add(x.func.value.slice.id)
        for k in sorted(keys):
            for x in ast.walk(lp):
                if isinstance(x, (ast.Assign, ast.AnnAssign)) and x.value is not None:
                    t = x.targets[0] if isinstance(x, ast.Assign) else x.target
                    if isinstance(t, ast.Name) and t.id == k:
                        n += 1
                        rep.instance()
                        v = x.value
                        if isinstance(v, ast.Name) and v.id in env:
                            v = env[v.id]
                        if src(v) == f"{lv}.text":
                            rep.ok(f"Acl.group: {snippet(x, 40)}", "the block key is the heading's whole text", where=where(f, x))
                        else:
                            rep.violation("Acl.group", snippet(x), f"the key of a block is not the heading remark's whole text (`{lv}.text`): headings that differ only in the part that is cut off are merged into one block - the second heading is dropped and its entries move", where(f, x), inp="remarks '=== C-1, web' and '=== C-1, db'")
    rep.floor(1, "assignments of the block key in Acl.group")


def heading_test_is_prefix(ctx: Ctx, rep: Report, rid: str = "R15.15") -> None:
    """A remark opens a block exactly when its text starts with the `group_by` string as given (blanks included): the
    test is `<remark>.text.startswith(group_by)` on the parameter itself, not on a stripped or otherwise changed copy."""
    rep.rule(rid)
    f = _group_func(ctx)
    gb = "group_by" if "group_by" in f.params else (f.params[1] if len(f.params) > 1 else None)
    rep.require(gb is not None, "Acl.group lost its group_by parameter")
    rebound = [x for x in own_nodes(f.node) if isinstance(x, ast.Name) and x.id == gb and isinstance(x.ctx, ast.Store)]
    tests = [x for x in own_nodes(f.node) if isinstance(x, ast.Call) and isinstance(x.func, ast.Attribute) and x.func.attr == "startswith" and src(x.func.value).endswith(".text")]
    rep.instance()
    if not tests:
        # the prefix used as a regular expression: only with re.escape is it the same test
        rx_calls = [x for x in own_nodes(f.node) if isinstance(x, ast.Call) and isinstance(x.func, ast.Attribute) and isinstance(x.func.value, ast.Name) and x.func.value.id == "re" and any(isinstance(y, ast.Name) and y.id == gb for a in x.args for y in ast.walk(a))]
        if rx_calls:
            c = rx_calls[0]
            if any(isinstance(y, ast.Call) and src(y.func) == "re.escape" for a in c.args for y in ast.walk(a)):
                rep.ok(f"Acl.group: {snippet(c, 50)}", "the prefix is matched as an escaped pattern at the start of the text", where=where(f, c))
            else:
                rep.violation("Acl.group", snippet(c, 60), f"`{gb}` is used as a regular expression without re.escape: '| ' matches every remark, '*** ' raises re.error, '[x] ' never matches - the headings found are not the remarks that start with the prefix", where(f, c), inp="group_by='| '")
            return
    rep.require(bool(tests), "Acl.group no longer tests the remark text with startswith")
    for t in tests:
        if len(t.args) == 1 and isinstance(t.args[0], ast.Name) and t.args[0].id == gb and not rebound:
            rep.ok(f"Acl.group: {snippet(t, 50)}", "prefix test with the parameter as given", where=where(f, t))
        else:
            rep.violation("Acl.group", snippet(t, 60), f"the heading test does not use `{gb}` as given: with group_by '=== ' a remark '=====' or '===text' opens a block too (or one that should does not)", where(f, t), inp="group_by='=== ', remark '====='")


def members_counted_only_for_groups(ctx: Ctx, rep: Report, rid: str = "R15.13") -> None:
    """The TCAM estimate multiplies by the number of members only for an address that IS a group: the line setters
    re-type an address without emptying its members, so `len(addr.items)` is read under `addr.type == "addrgroup"`."""
    rep.rule(rid)
    n = 0
    for f in [g for g in ctx.prog.funcs if g.name == "tcam_count" and g.cls is not None]:
        cfg = ctx.cfg(f)
        for nd in cfg.live:
            if nd.ast is None or nd.kind not in ("stmt", "cond"):
                continue
            for x in ast.walk(nd.ast):
                if isinstance(x, ast.Attribute) and x.attr in ("items", "_items") and isinstance(x.value, ast.Attribute) and x.value.attr.lstrip("_") in ("srcaddr", "dstaddr"):
                    n += 1
                    rep.instance()
                    side = src(x.value)
                    ok = False
                    for c, lab in cfg.transitive_control_deps(nd):
                        if c.kind != "cond" or not isinstance(c.ast, ast.Compare) or len(c.ast.ops) != 1:
                            continue
                        t = c.ast
                        txt = src(t)
                        if f"{side}.type" in txt and "addrgroup" in txt and not isinstance(t.comparators[0], (ast.List, ast.Tuple, ast.Set)) and not isinstance(t.left, (ast.List, ast.Tuple)):
                            if (isinstance(t.ops[0], ast.Eq) and lab == "T") or (isinstance(t.ops[0], ast.NotEq) and lab == "F"):
                                ok = True
                    if ok:
                        rep.ok(f"{f.qualname}: {snippet(x, 40)}", f"read under {side}.type == 'addrgroup'", where=where(f, x))
                    else:
                        rep.violation(f.qualname, snippet(nd.ast, 60), f"the members of {side} are counted without a test that this address is a group: an address that was a group and was re-assigned a plain line still multiplies the estimate by its old members", where(f, x), inp="ace.dstaddr.line = 'host 10.0.0.1' on an address that had members")
    rep.floor(2, "member counts in tcam_count") if n else rep.note(f"{rid} no tcam_count reads the members of an address")


def group_is_atomic(ctx: Ctx, rep: Report, rid: str = "R15.14") -> None:
    """Grouping either happens or leaves the ACL as it was: the object's state (_items, _group_by) is written after every
    block has been built - building a block can fail (a heading longer than a name may be)."""
    rep.rule(rid)
    f = _group_func(ctx)
    cfg = ctx.cfg(f)
    base = ctx.cls("Base")
    writes = []
    for nd in cfg.live:
        if nd.ast is None or nd.kind != "stmt":
            continue
        for x in ast.walk(nd.ast):
            if isinstance(x, ast.Attribute) and isinstance(x.ctx, ast.Store) and src(x.value) == "self" and x.attr in ("_items", "items", "_group_by"):
                writes.append(nd)
            if isinstance(x, ast.Call) and isinstance(x.func, ast.Attribute) and x.func.attr in ("append", "extend", "insert", "clear", "pop", "remove") and src(x.func.value) in ("self._items", "self.items"):
                writes.append(nd)
    rep.instance()
    rep.require(bool(writes), "Acl.group no longer writes self._items")
    bad = None
    for w in writes:
        for m in cfg.reachable(w, labels_avoid=("exc",)):
            if m is w or m.ast is None or m.kind not in ("stmt", "cond", "for"):
                continue
            root = m.ast.iter if m.kind == "for" else m.ast
            for x in ast.walk(root):
                if isinstance(x, ast.Call) and isinstance(x.func, ast.Name):
                    c = ctx.prog.resolve_name(f.module, x.func.id)
                    if isinstance(c, Class) and c.is_subclass_of(base):
                        bad = bad or (w, x)
    if bad:
        w, x = bad
        rep.violation("Acl.group", f"{snippet(w.ast, 40)} ... {snippet(x, 40)}", "the ACL's own state is written before the last block is built: when building a block fails the ACL is left holding only the blocks built so far (entries are lost)", where(f, w.ast), inp="a heading remark longer than 100 characters in the second block")
    else:
        rep.ok("Acl.group", "every block is built before _items/_group_by are written", where=where(f, writes[0].ast))


def run(ctx: Ctx, rep: Report, tier: str) -> None:
    r15_6(ctx, rep)
    r15_1(ctx, rep)
    # R15.19 the own number `sort()` reads is the block's own: a rebuilt block receives the number of the block it replaces
    # (C16 R16.23), found again under a key computed from that very block (C16 R16.25)
    from .c16 import block_identity_key_is_unique, blocks_keep_number

    sub1619 = Report("C15")
    blocks_keep_number(ctx, sub1619)
    block_identity_key_is_unique(ctx, sub1619)
    rep.absorb(sub1619, "R15.19")
    r15_2(ctx, rep)
    r15_3(ctx, rep)
    lt_field_agreement(ctx, rep)
    items_setter_store(ctx, rep)
    ungroup_forgets_grouping(ctx, rep)
    list_api_forwarding(ctx, rep)
    block_key_is_heading(ctx, rep)
    heading_test_is_prefix(ctx, rep)
    members_counted_only_for_groups(ctx, rep)
    group_is_atomic(ctx, rep)
    # R15.11 sort() orders by sequence number: resequence() numbers every item it walks over, a nested block too
    # (C10 R10.4) - a block left with a stale number is ordered by the string tie-break
    from .c10 import _traversal

    sub = Report("C15")
    sub.rule("R10.4")
    for f in [g for g in ctx.prog.funcs if g.name == "resequence" and g.cls is not None]:
        _traversal(ctx, sub, f)
    rep.absorb(sub, "R15.11")
    r15_4(ctx, rep)
    r15_5(ctx, rep)


# what the later rounds (seeding rounds 2-5, refactor twins, defect hunt) added to what the check decides
LATER_ROUNDS = "a repeated heading remark is reported as dropped (known finding K6), blocks without own number are ordered by their first member's, ties are not decided by text alone, the source and destination steps of the comparator agree"
EXPLANATION = EXPLANATION.replace(" Does not decide", " Later rounds added: " + LATER_ROUNDS + ". Does not decide", 1) if " Does not decide" in EXPLANATION else EXPLANATION + " Later rounds added: " + LATER_ROUNDS + "."
