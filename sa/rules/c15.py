"""C15 — not implemented yet (fail closed)."""
from ..model import AnalysisError
PROPERTY = "C15"
LEVEL = "other"
EXPLANATION = "not implemented"
def run(ctx, rep, tier):
    raise AnalysisError("rules for C15 are not implemented yet")
