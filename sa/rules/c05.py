"""C05 — not implemented yet (fail closed)."""
from ..model import AnalysisError
PROPERTY = "C05"
LEVEL = "other"
EXPLANATION = "not implemented"
def run(ctx, rep, tier):
    raise AnalysisError("rules for C05 are not implemented yet")
