"""C05 Wildcard -> prefixes: no stale derived value, limits reject (never truncate), rejection propagates."""

from __future__ import annotations

import ast
from typing import Dict, List, Optional, Set, Tuple

from ..cfg import Node, exc_is_subclass, handler_classes
from ..core import Ctx, Report, snippet, where
from ..intervals import IntSet, NotInterval, cond_to_intset, relation
from ..model import AnalysisError, Class, Func, own_nodes, src
from ..pathsem import function_paths, resolve_local
from .common import chain, deep_resolve, reachable_without_edges, single_env

PROPERTY = "C05"
LEVEL = "other"
EXPLANATION = (
    "Decides the history clause (no memoised or partially updated derived value can survive a reassignment of the "
    "line), the reject-never-truncate clause (the limit is compared as count > limit on the very list that is returned, "
    "on the only path, with the limit range 0..30) and that the rejection is not swallowed on the way up to the "
    "constructors. Does not decide exactness of the expansion (cover, disjointness, 2^k count, single-network "
    "detection): statements about 2^64 bit patterns."
)
ASSUMPTIONS = ["ipaddress raises only ValueError subclasses for malformed text"]

CACHE_DECORATORS = {"lru_cache", "cache", "cached_property"}

# handlers that may swallow a ValueError raised by an over-limit member: governed by C12 (member dropped with a log record)
C12_GOVERNED = {"AddrGroup.line.setter": "address-group member loop: logs and drops the member (C12 R12.5)"}


def memo_rules(ctx: Ctx, rep: Report, rid: str = "R05.1", only_class: Optional[str] = None) -> int:  # noqa: C901
    """Memo soundness for functools caches and for instance-attribute memos. Returns number of memos found."""
    rep.rule(rid)
    found = 0
    ef = ctx.effects
    for cls in ctx.prog.classes.values():
        if only_class and cls.name != only_class:
            continue
        for f in list(cls.methods.values()) + list(cls.getters.values()):
            # ---- functools caches keyed by the receiver
            decs = [d for d in f.decorators if d in CACHE_DECORATORS]
            if decs:
                found += 1
                rep.instance()
                reads = ef.self_reads(f, None)
                mutable = _mutable_after_init(ctx, cls)
                # lru_cache / cache look the receiver up by its hash and equality; cached_property stores the value in the
                # instance once and for all - nothing the object hashes by can invalidate it
                key = set() if "cached_property" in decs else _hash_key(ctx, cls)
                stale = sorted((reads & mutable) - key)
                if stale:
                    writers = sorted({w for a in stale for w in _writers_of(ctx, cls, a)})
                    rep.violation(
                        f.qualname,
                        f"@{decs[0]} over attributes {stale}",
                        f"the cache is keyed by {'object identity' if not key else sorted(key)} but the result depends on {stale}, "
                        f"which {writers} reassign: a query after a reassignment answers for the old value",
                        where(f),
                        inp='w = Wildcard("10.0.0.0 0.0.0.3"); w.ipnets(); w.line = "20.0.0.0 0.0.0.255"; w.ipnets()',
                    )
                else:
                    rep.ok(f"{f.qualname} @{decs[0]}", "reads no attribute that can change after construction (or all are part of the hash key)", where=where(f))
                continue
            # ---- instance memo: `if self._m...: return self._m` ... `self._m = value`
            memo = _instance_memo(f)
            if memo is None:
                continue
            found += 1
            # entries are what a user of the object can invoke: setters and public methods (private members are judged
            # through the entries that call them)
            # the memo is judged for the defining class and for every subclass that inherits the method: a subclass
            # may add writers of what the memo depends on (Address.items setter for a memo kept by AddressBase)
            users = [c for c in ctx.prog.classes.values() if cls in c.mro and (c.lookup_method(f.name) is f or c.lookup_getter(f.name) is f)]
            from .c06 import _own_reads

            for ucls in users:
                rep.instance()
                # plain attributes of the object itself that the computation reads (through its own getters/methods)
                deps = _own_reads(ctx, f, ucls) - {memo}
                tag = f"{f.qualname}" if ucls is cls else f"{f.qualname} (as inherited by {ucls.name})"
                members = []
                for g in [x for c in ucls.mro for x in c.all_funcs()]:
                    own = (ucls.lookup_setter(g.name) if g.kind == "setter" else ucls.lookup_getter(g.name) if g.kind == "getter" else ucls.lookup_method(g.name))
                    if own is g and g is not f and g.name != "__init__" and g.parent is None:
                        members.append(g)

                def self_callees(g: Func, n: ast.AST) -> List[Func]:
                    """Members of the object a statement invokes: self.m(...), self.prop = v (setter), self.prop (getter)."""
                    out = []
                    for x in ast.walk(n):
                        if isinstance(x, ast.Call) and isinstance(x.func, ast.Attribute) and src(x.func.value) == "self":
                            m = ucls.lookup_method(x.func.attr)
                            if m is not None:
                                out.append(m)
                        if isinstance(x, ast.Attribute) and src(x.value) == "self" and isinstance(x.ctx, ast.Store):
                            stt = ucls.lookup_setter(x.attr)
                            if stt is not None:
                                out.append(stt)
                    return out

                may_write: Dict[Func, Set[str]] = {}

                def writes_of(g: Func, busy: Optional[Set[int]] = None) -> Set[str]:
                    busy = busy if busy is not None else set()
                    if g in may_write:
                        return may_write[g]
                    if id(g) in busy:
                        return set()
                    busy.add(id(g))
                    out = set(_direct_writes(g))
                    for n in own_nodes(g.node):
                        if isinstance(n, ast.stmt) and not isinstance(n, (ast.FunctionDef, ast.ClassDef)):
                            pass
                    for n in own_nodes(g.node):
                        if isinstance(n, (ast.Call, ast.Attribute)):
                            for m in self_callees(g, n) if not isinstance(n, ast.Attribute) or isinstance(n.ctx, ast.Store) else []:
                                if m is not f:
                                    out |= writes_of(m, busy)
                    busy.discard(id(g))
                    may_write[g] = out
                    return out

                def _paired(g: Func, tt: ast.Tuple, v: Optional[ast.AST], attr: str):
                    """(target, value) of `self.<attr>` in a tuple assignment; the value None when it cannot be paired."""
                    idx = [i for i, e in enumerate(tt.elts) if isinstance(e, ast.Attribute) and src(e.value) == "self" and e.attr == attr]
                    if len(idx) != 1 or any(isinstance(e, ast.Starred) for e in tt.elts):
                        return None, None
                    i = idx[0]
                    if isinstance(v, ast.Name):
                        binds = [b.value for b in own_nodes(g.node) if isinstance(b, ast.Assign) and len(b.targets) == 1 and isinstance(b.targets[0], ast.Name) and b.targets[0].id == v.id]
                        stores_ = [b for b in own_nodes(g.node) if isinstance(b, ast.Name) and b.id == v.id and isinstance(b.ctx, (ast.Store, ast.Del))]
                        v = binds[0] if len(binds) == 1 and len(stores_) == 1 else None
                    if not isinstance(v, (ast.Tuple, ast.List)):
                        return tt.elts[i], None
                    stars = [j for j, e in enumerate(v.elts) if isinstance(e, ast.Starred)]
                    if not stars and len(v.elts) == len(tt.elts):
                        return tt.elts[i], v.elts[i]
                    if len(stars) == 1:
                        # one unpacked element: what stands before it pairs from the left, what stands after it from the right
                        if i < stars[0]:
                            return tt.elts[i], v.elts[i]
                        back = len(tt.elts) - i
                        if back <= len(v.elts) - 1 - stars[0]:
                            return tt.elts[i], v.elts[len(v.elts) - back]
                    return tt.elts[i], None

                must_reset: Dict[Func, bool] = {}

                def resets(g: Func, busy: Optional[Set[int]] = None) -> bool:
                    """Every normal path through g passes a statement that empties the memo (directly or in a member it invokes)."""
                    busy = busy if busy is not None else set()
                    if g in must_reset:
                        return must_reset[g]
                    if id(g) in busy:
                        return False
                    busy.add(id(g))
                    cfg_g = ctx.cfg(g)
                    ok_ = cfg_g.all_paths_pass(cfg_g.entry, cfg_g.exit, lambda n: is_reset_node(g, n, busy), labels_avoid=("exc",))
                    busy.discard(id(g))
                    must_reset[g] = ok_
                    return ok_

                def is_reset_node(g: Func, n: Node, busy: Optional[Set[int]] = None) -> bool:
                    if n.kind != "stmt" or n.ast is None:
                        return False
                    if isinstance(n.ast, (ast.Assign, ast.AnnAssign)):
                        tg = n.ast.targets if isinstance(n.ast, ast.Assign) else [n.ast.target]
                        for t in tg:
                            v = n.ast.value
                            if isinstance(t, ast.Tuple):
                                # `self._a, ..., self._memo = x, ..., []` (the tuple possibly bound to a local first)
                                t, v = _paired(g, t, v, memo)
                            if isinstance(t, ast.Attribute) and src(t.value) == "self" and t.attr == memo:
                                if isinstance(v, ast.Constant) and not v.value or isinstance(v, (ast.List, ast.Dict, ast.Tuple, ast.Set)) and not getattr(v, "elts", getattr(v, "keys", [])):
                                    return True
                    if isinstance(n.ast, ast.Delete) and any(isinstance(t, ast.Attribute) and t.attr == memo for t in n.ast.targets):
                        return True
                    if isinstance(n.ast, ast.Expr) and isinstance(n.ast.value, ast.Call) and isinstance(n.ast.value.func, ast.Attribute) and n.ast.value.func.attr == "clear" and src(n.ast.value.func.value) == f"self.{memo}":
                        return True
                    return any(m is not g and m is not f and resets(m, busy) for m in self_callees(g, n.ast))

                def is_write_node(g: Func, n: Node) -> Set[str]:
                    if n.kind not in ("stmt", "cond", "for") or n.ast is None:
                        return set()
                    w = set(_direct_writes_of_stmt(n.ast)) if n.kind == "stmt" else set()
                    for m in self_callees(g, n.ast):
                        if m is not f:
                            w |= writes_of(m)
                    return w & deps

                # entries: what a user of the object can invoke (setters, public methods, and private members nobody calls)
                called = {m for g in members for n in own_nodes(g.node) if isinstance(n, (ast.Call, ast.Attribute)) for m in (self_callees(g, n) if not isinstance(n, ast.Attribute) or isinstance(n.ctx, ast.Store) else [])}
                entries = [g for g in members if g.kind == "setter" or not g.name.startswith("_")]
                del called
                any_writer = False
                for g in sorted(entries, key=lambda x: x.qualname):
                    cfg_g = ctx.cfg(g)
                    bad = None
                    attrs: Set[str] = set()
                    for wn in cfg_g.live:
                        w = is_write_node(g, wn)
                        if not w:
                            continue
                        attrs |= w
                        # a path entry -> wn -> exit without any reset
                        before = cfg_g.reachable(cfg_g.entry, avoid=lambda n, g=g: is_reset_node(g, n), labels_avoid=("exc",))
                        if wn not in before or is_reset_node(g, wn):
                            continue
                        after = cfg_g.reachable(wn, avoid=lambda n, g=g: is_reset_node(g, n), labels_avoid=("exc",))
                        if cfg_g.exit in after:
                            bad = wn
                            break
                    if not attrs:
                        continue
                    any_writer = True
                    if bad is not None:
                        rep.violation(
                            g.qualname,
                            f"{snippet(bad.ast)} without resetting {memo}",
                            f"{tag} memoises its result in {memo} and reads {sorted(attrs)}; this writer can return without invalidating the memo: later queries describe the old state",
                            where(g, bad.ast),
                            inp='w = Wildcard("10.0.0.0 0.0.0.3"); w.ipnets(); w.line = "20.0.0.0 0.0.0.255"; w.ipnets()',
                        )
                    else:
                        rep.ok(f"{g.qualname} writes {sorted(attrs)}", f"every path that changes them also resets {memo} ({tag})", where=where(g))
                if not any_writer:
                    rep.ok(f"{tag}: memo {memo}", "no member other than __init__ writes what the memo depends on", where=where(f))
    return found


_MUTATORS = ("append", "extend", "insert", "remove", "pop", "clear", "sort", "reverse", "update", "add", "discard", "setdefault", "popitem")


def _direct_writes_of_stmt(st: ast.AST) -> Set[str]:
    """self attributes a statement (re)binds or mutates in place: self.a = ..., self.a += ..., self.a[i] = ..., self.a.append(...)."""
    out: Set[str] = set()
    for n in ast.walk(st):
        if isinstance(n, (ast.Assign, ast.AnnAssign, ast.AugAssign)):
            for t in n.targets if isinstance(n, ast.Assign) else [n.target]:
                for e in ([t] if not isinstance(t, (ast.Tuple, ast.List)) else t.elts):
                    while isinstance(e, ast.Subscript):
                        e = e.value
                    if isinstance(e, ast.Attribute) and src(e.value) == "self":
                        out.add(e.attr)
        if isinstance(n, ast.Call) and isinstance(n.func, ast.Attribute) and n.func.attr in _MUTATORS:
            r = n.func.value
            if isinstance(r, ast.Attribute) and src(r.value) == "self":
                out.add(r.attr)
        if isinstance(n, ast.Delete):
            for t in n.targets:
                while isinstance(t, ast.Subscript):
                    t = t.value
                if isinstance(t, ast.Attribute) and src(t.value) == "self":
                    out.add(t.attr)
    return out


def _direct_writes(g: Func) -> Set[str]:
    out: Set[str] = set()
    for n in own_nodes(g.node):
        if isinstance(n, ast.stmt):
            if isinstance(n, (ast.Assign, ast.AnnAssign, ast.AugAssign, ast.Delete, ast.Expr)):
                out |= _direct_writes_of_stmt(n)
    return out


def _instance_memo(f: Func) -> Optional[str]:
    """Name of the attribute `f` uses as its own memo: returned (itself or a copy of it) when set, and assigned from
    the computed result."""
    returned: Set[str] = set()
    assigned: Set[str] = set()
    for n in own_nodes(f.node):
        if isinstance(n, ast.Return) and isinstance(n.value, ast.Attribute) and src(n.value.value) == "self":
            returned.add(n.value.attr)
        elif isinstance(n, ast.Return) and n.value is not None:
            # list(self._m), self._m.copy(), self._m[:], tuple(self._m), dict(self._m)
            v = n.value
            inner = None
            if isinstance(v, ast.Call) and isinstance(v.func, ast.Name) and v.func.id in ("list", "tuple", "dict", "set", "sorted", "frozenset") and len(v.args) == 1:
                inner = v.args[0]
            elif isinstance(v, ast.Call) and isinstance(v.func, ast.Attribute) and v.func.attr == "copy" and not v.args:
                inner = v.func.value
            elif isinstance(v, ast.Subscript) and isinstance(v.slice, ast.Slice) and v.slice.lower is None and v.slice.upper is None:
                inner = v.value
            if isinstance(inner, ast.Attribute) and src(inner.value) == "self":
                # only when the function tests the attribute first (`if self._m: return list(self._m)`)
                tested = any(isinstance(t, (ast.If, ast.IfExp)) and any(isinstance(x, ast.Attribute) and src(x) == src(inner) for x in ast.walk(t.test)) for t in own_nodes(f.node))
                if tested:
                    returned.add(inner.attr)
        if isinstance(n, ast.Assign):
            for t in n.targets:
                if isinstance(t, ast.Attribute) and src(t.value) == "self":
                    assigned.add(t.attr)
    both = returned & assigned
    if f.kind in ("setter",) or f.name == "__init__":
        return None
    return sorted(both)[0] if both else None


def _mutable_after_init(ctx: Ctx, cls: Class) -> Set[str]:
    out: Set[str] = set()
    for c in cls.mro:
        for g in c.all_funcs():
            if g.name == "__init__":
                continue
            for n in own_nodes(g.node):
                if isinstance(n, (ast.Assign, ast.AnnAssign, ast.AugAssign)):
                    for t0 in n.targets if isinstance(n, ast.Assign) else [n.target]:
                        for t in (t0.elts if isinstance(t0, (ast.Tuple, ast.List)) else [t0]):  # `self._a, self._b = pair`
                            if isinstance(t, ast.Attribute) and src(t.value) == "self":
                                out.add(t.attr)
    return out


def _writers_of(ctx: Ctx, cls: Class, attr: str) -> List[str]:
    out = []
    for c in cls.mro:
        for g in c.all_funcs():
            if g.name == "__init__":
                continue
            for n in own_nodes(g.node):
                if isinstance(n, (ast.Assign, ast.AnnAssign, ast.AugAssign)):
                    for t0 in n.targets if isinstance(n, ast.Assign) else [n.target]:
                        for t in (t0.elts if isinstance(t0, (ast.Tuple, ast.List)) else [t0]):
                            if isinstance(t, ast.Attribute) and src(t.value) == "self" and t.attr == attr:
                                out.append(g.qualname)
    return out


def _hash_key(ctx: Ctx, cls: Class) -> Set[str]:
    h = cls.lookup_method("__hash__")
    e = cls.lookup_method("__eq__")
    if h is None or e is None:
        return set()
    return ctx.effects.self_reads(h, None)


def _self_targets(st: ast.AST) -> Set[str]:
    """self attributes bound by an assignment statement (tuple targets flattened)."""
    out: Set[str] = set()
    tgs = st.targets if isinstance(st, ast.Assign) else [st.target]
    for t in tgs:
        for e in ast.walk(t):
            if isinstance(e, ast.Attribute) and isinstance(e.ctx, ast.Store) and src(e.value) == "self":
                out.add(e.attr)
    return out


def r05_2(ctx: Ctx, rep: Report) -> None:
    rep.rule("R05.2")
    ls = ctx.func("Wildcard.line.setter")
    cfg = ctx.cfg(ls)
    derived: Set[str] = set()
    for n in own_nodes(ls.node):
        if isinstance(n, (ast.Assign, ast.AnnAssign)):
            derived |= _self_targets(n)
    surface = ["Wildcard.ipnets", "Wildcard.line.getter", "Wildcard.prefix.getter", "Wildcard.wildmask.getter", "Wildcard.data"]
    reads: Set[str] = set()
    for q in surface:
        f = ctx.prog.find_func(q)
        if f is not None:
            reads |= ctx.effects.self_reads(f, None)
    rep.instance()
    rep.require(len(derived) >= 4, "Wildcard.line setter stores fewer than 4 attributes: anchor changed")
    need = sorted(derived)
    paths = [p for p in function_paths(cfg) if not p.raises]
    for p in paths:
        stored = set()
        for node, lab in p.nodes:
            if node.kind == "stmt" and isinstance(node.ast, (ast.Assign, ast.AnnAssign)):
                stored |= _self_targets(node.ast)
        miss = [a for a in need if a not in stored]
        if miss:
            rep.violation("Wildcard.line.setter", f"path stores {sorted(stored)}", f"a normal path of the setter leaves {miss} describing the previous line", where(ls))
        else:
            rep.ok("Wildcard.line.setter: normal path", f"assigns all of {need}", where=where(ls))
    unread = sorted(a for a in reads if a.startswith("_") and a not in derived and a not in ("_platform", "_uuid", "_max_ncwb"))
    for a in unread:
        rep.note(f"R05.2 query surface reads {a}, which the line setter never assigns")


def r05_3(ctx: Ctx, rep: Report) -> None:
    rep.rule("R05.3")
    ls = ctx.func("Wildcard.line.setter")
    cfg = ctx.cfg(ls)
    rep.instance()

    def is_store(n: Node) -> bool:
        if n.kind == "stmt" and isinstance(n.ast, (ast.Assign, ast.AnnAssign)):
            return bool(_self_targets(n.ast))
        return False

    stores = [n for n in cfg.live if is_store(n)]
    raising: List[Tuple[Node, ast.AST, Dict]] = []
    for n in cfg.live:
        if n.ast is None or n.kind not in ("stmt", "cond"):
            continue
        for x in ast.walk(n.ast):
            if isinstance(x, ast.Call):
                r = ctx.excs.call_raises(ls, x)
                if r:
                    raising.append((n, x, r))
    bad = None
    for sn in stores:
        after = cfg.reachable(sn, labels_avoid=("exc",))
        for n, call, r in raising:
            if n in after and (n is not sn):
                bad = (sn, n, call, r)
                break
            if n is sn:
                # the store's own right-hand side may raise before the store happens: fine
                continue
        if bad:
            break
    if bad:
        sn, n, call, r = bad
        cls_names = sorted(r)
        rep.violation(
            "Wildcard.line.setter",
            f"{snippet(call)} after {snippet(sn.ast)}",
            f"a call that may raise {cls_names} runs after the first attribute was stored: a rejected line leaves a hybrid object (new text, old bits)",
            where(ls, call),
            inp='w = Wildcard("10.0.0.0 0.0.1.3", max_ncwb=1); w.line = "20.0.0.0 0.0.5.3"  # rejected; then w.line / w.ipnets()',
        )
    else:
        rep.ok("Wildcard.line.setter", f"{len(raising)} raising call(s), all before the first of {len(stores)} stores", where=where(ls))


def r05_4(ctx: Ctx, rep: Report) -> None:  # noqa: C901
    rep.rule("R05.4")
    nb = ctx.func("Wildcard._ncw_bits")
    cfg = ctx.cfg(nb)
    rep.instance()
    paths = function_paths(cfg)
    normal = [p for p in paths if not p.raises]
    raising = [p for p in paths if p.raises]
    rep.require(bool(normal), "Wildcard._ncw_bits has no normal path")
    ret_names = {src(p.ret) for p in normal if p.ret is not None}
    # the list that is counted is a whole tail of the bit list: a slice with an upper bound drops bits before they are counted
    for x in own_nodes(nb.node):
        if isinstance(x, (ast.Assign, ast.AnnAssign)) and x.value is not None:
            t_ = x.targets[0] if isinstance(x, ast.Assign) else x.target
            if isinstance(t_, ast.Name) and t_.id in ret_names and isinstance(x.value, ast.Subscript) and isinstance(x.value.slice, ast.Slice) and x.value.slice.upper is not None:
                rep.instance()
                rep.violation("Wildcard._ncw_bits", snippet(x, 60), "the non-contiguous bits are cut by a slice with an upper bound before they are counted: a mask with more such bits than the bound passes the limit check and is expanded without them (truncated instead of rejected)", where(nb, x), inp="Wildcard('0.0.0.0 255.255.255.254', max_ncwb=30)")
    ok_guard = False
    detail = ""
    for c in cfg.live:
        if c.kind != "cond":
            continue
        t = c.ast
        env = normal[0].env
        rel = relation(
            deep_resolve(t, env) if False else t,
            lambda x: _is_len_of(x, ret_names, env),
            lambda x: src(x) in ("self.max_ncwb", "self._max_ncwb") or (isinstance(x, ast.Name) and src(resolve_local(x, env)) in ("self.max_ncwb", "self._max_ncwb")),
        )
        if rel is None:
            continue
        raise_lab = "T"
        tsucc = [s for lab, s in c.succ if lab == "T"]
        # which edge leads to the raise?
        t_raises = bool(tsucc) and cfg.exit not in cfg.reachable(tsucc[0], labels_avoid=("exc",))
        f_succ = [s for lab, s in c.succ if lab == "F"]
        f_raises = bool(f_succ) and cfg.exit not in cfg.reachable(f_succ[0], labels_avoid=("exc",))
        if t_raises and not f_raises:
            eff = rel
        elif f_raises and not t_raises:
            eff = {"a>b": "a<=b", "a>=b": "a<b", "a<b": "a>=b", "a<=b": "a>b", "a==b": "a!=b", "a!=b": "a==b"}[rel]
        else:
            continue
        detail = f"`{snippet(t)}` raises when {eff.replace('a', 'count').replace('b', 'limit')}"
        if eff == "a>b":
            ok_guard = True
            # the raise class
            classes = set()
            for p in raising:
                for node, lab in p.nodes:
                    if node.kind == "stmt" and isinstance(node.ast, ast.Raise):
                        from ..cfg import raised_class

                        classes.add(raised_class(node.ast))
            if classes and not all(cn and exc_is_subclass(cn, "ValueError") for cn in classes):
                rep.violation("Wildcard._ncw_bits", f"raises {sorted(map(str, classes))}", "the limit rejection is not a ValueError (NetmaskValueError)", where(nb))
            # the return is reachable only through the non-raising edge
            cut = {(c.id, "F" if t_raises else "T")}
            if any(r in reachable_without_edges(cfg, cfg.entry, cut) for r in [n for n in cfg.live if n.kind == "stmt" and isinstance(n.ast, ast.Return)]):
                rep.violation("Wildcard._ncw_bits", snippet(t), "the bits can be returned on a path that bypasses the limit check", where(nb, t))
                ok_guard = False
        else:
            rep.violation(
                "Wildcard._ncw_bits",
                snippet(t),
                f"the limit guard rejects when {eff.replace('a', 'count').replace('b', 'limit')}; the property rejects a mask needing *more* bits than the limit (count > limit)",
                where(nb, t),
                inp='Wildcard("10.0.0.0 0.0.1.3", max_ncwb=1)  # exactly at the limit',
            )
            return
    if ok_guard:
        rep.ok("Wildcard._ncw_bits", detail + "; count = len(<returned list>); the return is dominated by the passing edge", where=where(nb))
    else:
        rep.violation("Wildcard._ncw_bits", "limit guard", "no guard `len(<returned bits>) > self.max_ncwb` that raises dominates the return: an over-limit mask is expanded or truncated instead of rejected", where(nb))
    # reached on every normal path from the setter
    ls = ctx.func("Wildcard.line.setter")
    reach_nb = ctx.cg.reaching(nb)
    rep.instance()
    lcfg = ctx.cfg(ls)

    def calls_into(n: Node) -> bool:
        if n.ast is None:
            return False
        for x in ast.walk(n.ast):
            if isinstance(x, (ast.Call, ast.Attribute)):
                for e in ctx.cg.all_edges(ls):
                    if e.site is x and isinstance(e.target, Func) and (e.target in reach_nb or e.target is nb):
                        return True
        return False

    if lcfg.all_paths_pass(lcfg.entry, lcfg.exit, calls_into, labels_avoid=("exc",)):
        rep.ok("Wildcard.line.setter", "every normal path passes a call that reaches _ncw_bits", where=where(ls))
    else:
        rep.violation("Wildcard.line.setter", "limit check", "a normal path of the setter does not reach the limit check", where(ls))
    for q in sorted(f.qualname for f in reach_nb if f.cls is not None and f.cls.name == "Wildcard" and f is not nb and f is not ls and f.name.startswith("_") and not f.name.startswith("__")):
        g = ctx.func(q)
        gcfg = ctx.cfg(g)
        rep.instance()

        def calls_into_g(n: Node, g=g) -> bool:
            if n.ast is None:
                return False
            for x in ast.walk(n.ast):
                if isinstance(x, (ast.Call, ast.Attribute)):
                    for e in ctx.cg.all_edges(g):
                        if e.site is x and isinstance(e.target, Func) and (e.target in reach_nb or e.target is nb):
                            return True
            return False

        if gcfg.all_paths_pass(gcfg.entry, gcfg.exit, calls_into_g, labels_avoid=("exc",)):
            rep.ok(q, "every normal path reaches the limit check", where=where(g))
        else:
            rep.violation(q, "limit check", "a normal path returns without the limit check", where(g))
    # single writer of _max_ncwb, value from init_max_ncwb, accepted interval [0, 30]
    rep.instance()
    wc = ctx.cls("Wildcard")
    writers = []
    for g in wc.all_funcs():
        for n in own_nodes(g.node):
            if isinstance(n, (ast.Assign, ast.AnnAssign)):
                for t in n.targets if isinstance(n, ast.Assign) else [n.target]:
                    if isinstance(t, ast.Attribute) and src(t.value) == "self" and t.attr == "_max_ncwb":
                        writers.append((g, n))
    if len(writers) != 1 or not (isinstance(writers[0][1].value, ast.Call) and src(writers[0][1].value.func).endswith("init_max_ncwb")):
        rep.violation("Wildcard", f"_max_ncwb writers: {[g.qualname for g, _ in writers]}", "the limit must have one writer fed by init_max_ncwb (range and type validation)", "cisco_acl/wildcard.py")
    else:
        rep.ok("Wildcard._max_ncwb", f"single writer {writers[0][0].qualname} = {snippet(writers[0][1].value)}", where=where(writers[0][0]))
    im = ctx.func("wildcard.init_max_ncwb")
    rep.instance()
    acc = IntSet.all()
    typed = False
    var = None
    for n in own_nodes(im.node):
        if isinstance(n, ast.If) and any(isinstance(s, ast.Raise) for s in n.body):
            t = n.test
            if isinstance(t, ast.UnaryOp) and isinstance(t.op, ast.Not) and isinstance(t.operand, ast.Call) and src(t.operand.func) == "isinstance":
                spec = src(t.operand.args[1]) if len(t.operand.args) > 1 else ""
                if spec == "int":
                    typed = True
                    var = src(t.operand.args[0])
                continue
            try:
                names = {x.id for x in ast.walk(t) if isinstance(x, ast.Name)}
                cand = [v for v in names if v in ("max_ncwb",)] or sorted(names)
                v0 = cand[0] if cand else ""
                bad = cond_to_intset(t, lambda x, v0=v0: isinstance(x, ast.Name) and x.id == v0, lambda x: ctx.folder.fold(x, im.module))
                acc = acc.intersect(bad.complement())
            except NotInterval:
                continue
    if acc == IntSet([(0, 30)]) and typed:
        rep.ok("wildcard.init_max_ncwb", f"accepts integers {acc} after an isinstance(int) guard", where=where(im))
    else:
        rep.violation("wildcard.init_max_ncwb", f"accepted limits {acc}, int guard={typed}", "the configured limit ranges over 0..30", where(im))


def _is_len_of(x: ast.AST, names: Set[str], env) -> bool:
    x = resolve_local(x, env)
    return isinstance(x, ast.Call) and isinstance(x.func, ast.Name) and x.func.id == "len" and len(x.args) == 1 and src(x.args[0]) in names


def r05_5(ctx: Ctx, rep: Report) -> None:
    rep.rule("R05.5")
    nb = ctx.func("Wildcard._ncw_bits")
    reach_nb = ctx.cg.reaching(nb)
    n_try = 0
    for f in ctx.prog.funcs:
        for t in own_nodes(f.node):
            if not isinstance(t, ast.Try):
                continue
            # does the try body contain a call that reaches the limit check?
            hit = None
            for st in t.body:
                for x in ast.walk(st):
                    if isinstance(x, (ast.Call, ast.Attribute)):
                        for e in ctx.cg.all_edges(f):
                            if e.site is x and isinstance(e.target, Func) and not e.weak and (e.target in reach_nb):
                                hit = x
            if hit is None:
                continue
            n_try += 1
            rep.instance()
            first = None
            for h in t.handlers:
                caught = handler_classes(h)
                if not caught or any(exc_is_subclass("NetmaskValueError", c) for c in caught):
                    first = h
                    break
            if first is None:
                rep.ok(f"{f.qualname}: try around {snippet(hit, 40)}", "no handler catches NetmaskValueError", where=where(f, t))
                continue
            reraises = _always_reraises(first) or _reraises_class(first, "NetmaskValueError")
            governed = f.qualname if f.qualname in C12_GOVERNED else None
            if governed is None and f.cls is not None and f.name.startswith("_"):
                # a private helper extracted from a governed member loop: all its callers are that loop's function
                cs = {g.qualname for g in ctx.prog.funcs for e in ctx.cg.all_edges(g) if e.target is f and not e.weak}
                if cs and cs <= set(C12_GOVERNED):
                    governed = sorted(cs)[0]
            if reraises:
                rep.ok(f"{f.qualname}: except {', '.join(handler_classes(first)) or '<bare>'}", "first matching handler re-raises the limit rejection", where=where(f, first))
            elif governed is not None:
                rep.ok(f"{f.qualname}: except {', '.join(handler_classes(first))}", C12_GOVERNED[governed], nontrivial=False, where=where(f, first))
            else:
                rep.violation(
                    f.qualname,
                    f"except {', '.join(handler_classes(first)) or '<bare>'} around {snippet(hit, 50)}",
                    "a handler on the way from the limit check to the constructors catches the over-limit rejection without re-raising it: the entry is dropped or approximated instead of rejected",
                    where(f, first),
                    inp='Acl("ip access-list extended A\\n permit ip 10.0.0.0 0.255.255.3 any", max_ncwb=1)',
                )
    rep.floor(1, "try statements on the path from the limit check")


def r05_8(ctx: Ctx, rep: Report) -> None:
    """The split of the mask into wildcard bits looks at all 32 bit positions: the bit string is formatted to PREFIX_LEN
    digits / the positions range over PREFIX_LEN."""
    rep.rule("R05.8")
    f = ctx.func("Wildcard._create_ncwb")
    plen = ctx.folder.try_const("wildcard", "PREFIX_LEN")
    rep.instance()
    rep.require(plen == 32, f"wildcard.PREFIX_LEN folds to {plen!r}, expected 32")
    env = ctx.folder.local_env(f)
    widths = []
    for n in own_nodes(f.node):
        if isinstance(n, ast.Call) and isinstance(n.func, ast.Name) and n.func.id == "format" and len(n.args) == 2:
            v = ctx.folder.fold(n.args[1], f.module, env)
            if isinstance(v, str):
                widths.append((n, v, v in (f"0{plen}b", f"{plen}b") or v.lstrip("0") == f"{plen}b"))
        if isinstance(n, ast.JoinedStr):
            for fv in n.values:
                if isinstance(fv, ast.FormattedValue) and fv.format_spec is not None:
                    v = ctx.folder.fold(fv.format_spec, f.module, env)
                    if isinstance(v, str) and v.endswith("b"):
                        widths.append((n, v, v.lstrip("0") == f"{plen}b"))
        if isinstance(n, ast.Call) and isinstance(n.func, ast.Name) and n.func.id == "range" and n.args:
            v = ctx.folder.fold(n.args[-1], f.module, env)
            lo = ctx.folder.fold(n.args[0], f.module, env) if len(n.args) > 1 else 0
            if isinstance(v, int):
                widths.append((n, f"range({lo}, {v})", lo == 0 and v == plen))
    if not widths:
        rep.note("R05.8 no bit-width site (format / range) found in Wildcard._create_ncwb (not judged)")
        rep.ok("Wildcard._create_ncwb: bit positions", "no explicit width (not judged)", nontrivial=False, where=where(f))
        return
    bad = [w for w in widths if not w[2]]
    if bad:
        rep.violation("Wildcard._create_ncwb", f"{snippet(bad[0][0])}: {bad[0][1]}", f"the wildcard bits are collected over {bad[0][1]}, not over all {plen} bit positions: a mask with a bit outside that window is split wrongly (a non-contiguous bit is missed, the limit is under-counted)", where(f, bad[0][0]), inp="Wildcard('10.0.0.0 128.0.0.255')")
    else:
        rep.ok("Wildcard._create_ncwb: bit positions", f"{[w[1] for w in widths]}: all {plen} positions", where=where(f))


def _spread_keys(f: Func, e: ast.AST) -> Optional[Set[str]]:
    """Keys a `**e` can carry when e is `D.get(k, {})`, `D.get(k) or {}` or `D[k]` and every value put into the local D is
    a dict display / dict(...) with constant keys; None when not known."""
    d = None
    if isinstance(e, ast.BoolOp) and isinstance(e.op, ast.Or) and len(e.values) == 2 and isinstance(e.values[1], ast.Dict) and not e.values[1].keys:
        e = e.values[0]
    if isinstance(e, ast.Call) and isinstance(e.func, ast.Attribute) and e.func.attr == "get" and isinstance(e.func.value, ast.Name):
        if len(e.args) == 2 and not (isinstance(e.args[1], ast.Dict) and not e.args[1].keys):
            return None
        d = e.func.value.id
    elif isinstance(e, ast.Subscript) and isinstance(e.value, ast.Name):
        d = e.value.id
    if d is None:
        return None
    keys: Set[str] = set()
    found = False
    # `identity_d = identity_d__i` (what inlining a helper that returns the table leaves behind): the same table
    names = {d}
    binds1: Dict[str, List[ast.AST]] = {}
    for n in own_nodes(f.node):
        if isinstance(n, (ast.Assign, ast.AnnAssign)) and n.value is not None:
            t = n.targets[0] if isinstance(n, ast.Assign) else n.target
            if isinstance(t, ast.Name):
                binds1.setdefault(t.id, []).append(n.value)
    for _ in range(3):
        for nm in list(names):
            for v0 in binds1.get(nm, []):
                if isinstance(v0, ast.Name):
                    names.add(v0.id)
    for n in own_nodes(f.node):
        v = None
        if isinstance(n, ast.Call) and isinstance(n.func, ast.Attribute) and n.func.attr == "setdefault" and src(n.func.value) in names and len(n.args) == 2:
            v = n.args[1]
        elif isinstance(n, ast.Assign) and isinstance(n.targets[0], ast.Subscript) and src(n.targets[0].value) in names:
            v = n.value
        elif isinstance(n, (ast.Assign, ast.AnnAssign)) and n.value is not None:
            t = n.targets[0] if isinstance(n, ast.Assign) else n.target
            if isinstance(t, ast.Name) and t.id in names:
                if isinstance(n.value, ast.Dict) and not n.value.keys:
                    continue
                if isinstance(n.value, ast.Call) and src(n.value.func) == "dict" and not n.value.args and not n.value.keywords:
                    continue
                if isinstance(n.value, ast.Name) and n.value.id in names:
                    continue
                return None
        if v is None:
            continue
        found = True
        if isinstance(v, ast.Name) and len(binds1.get(v.id, [])) == 1:
            v = binds1[v.id][0]  # `identity = {...}` ... `table.setdefault(key, identity)`
        if isinstance(v, ast.Call) and src(v.func) == "dict" and not v.args and all(k.arg for k in v.keywords):
            keys |= {k.arg for k in v.keywords}
        elif isinstance(v, ast.Dict) and all(isinstance(k, ast.Constant) for k in v.keys):
            keys |= {str(k.value) for k in v.keys}
        else:
            return None
    return keys if found else None


def _limit_holders(ctx: Ctx) -> Set[str]:
    """Classes whose objects carry the limit: some member of their MRO assigns self.max_ncwb / self._max_ncwb."""
    out: Set[str] = set()
    for cls in ctx.prog.classes.values():
        for c in cls.mro:
            for g in c.all_funcs():
                if any(isinstance(n, (ast.Assign, ast.AnnAssign)) and _self_targets(n) & {"max_ncwb", "_max_ncwb"} for n in own_nodes(g.node)):
                    out.add(cls.name)
    return out


def r05_6(ctx: Ctx, rep: Report) -> None:
    """The configured limit reaches every object built on behalf of a limit holder: a construction that hands over the
    owner's platform also hands over the owner's limit, and a child that is kept is not re-parsed under its old limit."""
    rep.rule("R05.6")
    holders = _limit_holders(ctx)
    # only classes whose construction can reach the limit check (a Remark carries the attribute but never a wildcard)
    reach_nb = ctx.cg.reaching(ctx.func("Wildcard._ncw_bits"))
    builds = {k.name for k in ctx.prog.classes.values() if any(g in reach_nb for c in k.mro for g in c.all_funcs() if g.name == "__init__")}
    holders = {h for h in holders if any(ctx.cls(h) in ctx.cls(k).mro for k in builds)}
    rep.require({"Wildcard", "Address", "AddressAg", "Ace"} <= holders, f"limit holders {sorted(holders)}: the classes that carry max_ncwb changed")
    n_sites = 0
    for cls in ctx.prog.classes.values():
        if cls.name not in holders:
            continue
        for f in cls.all_funcs():
            if f.kind in ("staticmethod", "classmethod"):
                continue
            if f.qualname == "Acl.group":
                # a helper that returns (flat list, identity table) is read as part of group(): the keys of the identity
                # records that are spread into the block constructor are then visible
                from .c15 import _group_func

                f = _group_func(ctx)
            for n in own_nodes(f.node):
                if isinstance(n, ast.Call):
                    fn = n.func
                    target = None
                    if isinstance(fn, ast.Name) and fn.id not in holders:
                        # a local alias of the object's own class: cls = self.__class__
                        from .common import single_env

                        al = single_env(f.node).get(fn.id)
                        if al is not None and src(al) in ("self.__class__", "type(self)"):
                            fn = al
                    if isinstance(fn, ast.Name) and fn.id in holders:
                        target = fn.id
                    elif src(fn) in ("self.__class__", "type(self)"):
                        target = cls.name
                    elif isinstance(fn, ast.Attribute) and isinstance(fn.value, ast.Name) and fn.value.id in holders and ctx.cls(fn.value.id).lookup_method(fn.attr) is not None and ctx.cls(fn.value.id).lookup_method(fn.attr).kind == "classmethod":
                        target = fn.value.id
                    if target is None:
                        continue
                    from .common import call_keywords, single_env as _se

                    kws = {k.arg: k.value for k in n.keywords if k.arg}
                    star = [k.value for k in n.keywords if k.arg is None]
                    # **kwargs where kwargs is a local dict literal / dict(...) built in this function: its keys are explicit
                    if star and all(isinstance(x, ast.Name) and isinstance(_se(f.node).get(x.id), (ast.Dict, ast.Call)) for x in star):
                        full = call_keywords(n, _se(f.node))
                        if len(full) > len(kws):
                            kws, star = full, []
                    # **D.get(k, {}) / **D[k] where every value stored in the local dict D is a dict display with known keys
                    # that do not include the limit: the spread cannot carry it
                    star = [x for x in star if (_spread_keys(f, x) is None or "max_ncwb" in _spread_keys(f, x))]
                    own_settings = [k for k, v in kws.items() if k in ("platform", "version") and src(v) in ("self._platform", "self.platform", "self.version", "self._version")]
                    if not own_settings or star:
                        continue  # not a construction on behalf of this object (or settings travel in a dict: C16/C17 key rules)
                    n_sites += 1
                    rep.instance()
                    v = kws.get("max_ncwb")
                    if v is not None and src(v) in ("self.max_ncwb", "self._max_ncwb"):
                        rep.ok(f"{f.qualname}: {snippet(n, 50)}", "the new object receives the owner's limit", where=where(f, n))
                    else:
                        rep.violation(
                            f.qualname,
                            snippet(n),
                            f"a {target} is built with this object's {own_settings} but without `max_ncwb=self.max_ncwb`: it checks wildcards against the default limit, not the configured one (over-limit masks are accepted or in-limit masks rejected)",
                            where(f, n),
                            inp='Address("group-object G", platform="ios", items=["10.0.0.0 0.0.7.7"], max_ncwb=2)  # 3 wildcard bits accepted',
                        )
                # a kept child re-parsed in place keeps the limit it was created with
                if isinstance(n, ast.Assign) and len(n.targets) == 1 and isinstance(n.targets[0], ast.Attribute) and n.targets[0].attr == "line":
                    recv = n.targets[0].value
                    if isinstance(recv, ast.Attribute) and src(recv.value) == "self":
                        t = ctx.types.attr_type(cls, recv.attr)
                        from ..typeinf import classes_of

                        kinds = {c.name for c in classes_of(t)} & holders
                        const_text = isinstance(n.value, ast.Constant) and isinstance(n.value.value, str) and not any(ch.isdigit() for ch in n.value.value)
                        if kinds and const_text:
                            rep.ok(f"{f.qualname}: {snippet(n, 50)}", "a constant text without a mask: no limit applies", nontrivial=False, where=where(f, n))
                        elif kinds:
                            n_sites += 1
                            rep.instance()
                            cfg = ctx.cfg(f)
                            node = cfg.node_containing(n)
                            synced = False
                            for m in cfg.live:
                                if m.kind == "stmt" and isinstance(m.ast, ast.Assign) and any(isinstance(t2, ast.Attribute) and t2.attr in ("max_ncwb", "_max_ncwb") and src(t2.value) == src(recv) for t2 in m.ast.targets) and src(m.ast.value) in ("self.max_ncwb", "self._max_ncwb"):
                                    if node is not None and cfg.dominates(m, node):
                                        synced = True
                            if synced:
                                rep.ok(f"{f.qualname}: {snippet(n, 50)}", "the kept child is given the owner's current limit first", where=where(f, n))
                            else:
                                rep.violation(
                                    f.qualname,
                                    snippet(n),
                                    f"the kept {sorted(kinds)} object is re-parsed in place: it checks the new line against the limit it was created with, not the owner's current max_ncwb",
                                    where(f, n),
                                    inp='a = Address("10.0.0.0 0.0.3.3", max_ncwb=16); a.max_ncwb = 1; a.line = "10.0.0.0 0.0.5.5"  # accepted',
                                )
    rep.floor(8, "constructions that hand over the owner's settings")


def _reraises_class(h: ast.ExceptHandler, cls_name: str) -> bool:
    """The handler starts with `if isinstance(<caught>, <cls_name or a base of it that is not the handler's own class>): raise`."""
    body = [s for s in h.body if not (isinstance(s, ast.Expr) and isinstance(s.value, ast.Constant))]
    if not body or not h.name:
        return False
    st = body[0]
    if not isinstance(st, ast.If) or st.orelse:
        return False
    t = st.test
    if not (isinstance(t, ast.Call) and isinstance(t.func, ast.Name) and t.func.id == "isinstance" and len(t.args) == 2 and src(t.args[0]) == h.name):
        return False
    names = [src(e) for e in t.args[1].elts] if isinstance(t.args[1], ast.Tuple) else [src(t.args[1])]
    if not any(exc_is_subclass(cls_name, n.split(".")[-1]) for n in names):
        return False
    last = st.body[-1] if st.body else None
    return isinstance(last, ast.Raise) and (last.exc is None or src(last.exc) == h.name) and all(not isinstance(x, (ast.Return, ast.Continue, ast.Break)) for x in st.body[:-1])


def _always_reraises(h: ast.ExceptHandler) -> bool:
    body = [s for s in h.body if not (isinstance(s, ast.Expr) and isinstance(s.value, ast.Constant))]
    if not body:
        return False
    last = body[-1]
    if isinstance(last, ast.Raise) and (last.exc is None or (h.name and src(last.exc) == h.name)):
        return all(not isinstance(s, (ast.Return, ast.Continue, ast.Break)) for s in body[:-1])
    return False


MUTATORS = ("append", "extend", "insert", "remove", "pop", "clear", "sort", "reverse", "update", "add", "discard", "setdefault", "popitem")


def _memo_exposers(ctx: Ctx) -> Dict[int, Tuple[Func, str]]:
    """Functions that can return the very list kept as a memo (not a copy): the memoising method itself when it returns
    `self._m` or a local it also stores in `self._m`, and every function that returns such a call's result unchanged."""
    out: Dict[int, Tuple[Func, str]] = {}
    for cls in ctx.prog.classes.values():
        for f in list(cls.methods.values()) + list(cls.getters.values()):
            memo = _instance_memo(f)
            if memo is None:
                continue
            stored_locals = {src(n.value) for n in own_nodes(f.node) if isinstance(n, ast.Assign) and isinstance(n.value, ast.Name) and any(isinstance(t, ast.Attribute) and src(t) == f"self.{memo}" for t in n.targets)}
            for n in own_nodes(f.node):
                if isinstance(n, ast.Return) and n.value is not None and (src(n.value) == f"self.{memo}" or src(n.value) in stored_locals):
                    out[id(f)] = (f, f"returns its memo self.{memo} itself")
    changed = True
    while changed:
        changed = False
        for g in ctx.prog.funcs:
            if id(g) in out:
                continue
            env = single_env(g.node)
            for n in own_nodes(g.node):
                if isinstance(n, ast.Return) and n.value is not None:
                    v = n.value
                    if isinstance(v, ast.Name) and v.id in env:
                        v = env[v.id]
                    if isinstance(v, ast.Call):
                        for e in ctx.cg.all_edges(g):
                            if e.site is v and id(e.target) in out and not e.weak:
                                out[id(g)] = (g, f"returns {out[id(e.target)][0].qualname}() unchanged")
                                changed = True
                                break
                if id(g) in out:
                    break
    return out


def _mutated_params(ctx: Ctx) -> Dict[int, Set[str]]:
    """function -> parameters it changes in place (directly, or by handing them to a function that does)."""
    out: Dict[int, Set[str]] = {}
    for g in ctx.prog.funcs:
        ps = set(g.params)
        rebound = {n.id for n in own_nodes(g.node) if isinstance(n, ast.Name) and isinstance(n.ctx, ast.Store)}
        hit: Set[str] = set()
        for y in own_nodes(g.node):
            if isinstance(y, ast.Name) and y.id in ps and y.id not in rebound:
                py = getattr(y, "_parent", None)
                if isinstance(py, ast.Attribute) and py.attr in MUTATORS and isinstance(getattr(py, "_parent", None), ast.Call) and getattr(py, "_parent").func is py:
                    hit.add(y.id)
                elif isinstance(py, ast.Subscript) and py.value is y and isinstance(py.ctx, (ast.Store, ast.Del)):
                    hit.add(y.id)
                elif isinstance(py, ast.AugAssign) and py.target is y:
                    hit.add(y.id)
        if hit:
            out[id(g)] = hit
    changed = True
    from .common import bind_call

    while changed:
        changed = False
        for g in ctx.prog.funcs:
            ps = set(g.params)
            rebound = {n.id for n in own_nodes(g.node) if isinstance(n, ast.Name) and isinstance(n.ctx, ast.Store)}
            for e in ctx.cg.all_edges(g):
                if e.kind != "call" or e.weak or not isinstance(e.site, ast.Call) or id(e.target) not in out:
                    continue
                t = e.target
                b = bind_call(t, e.site, bound=t.cls is not None and t.kind != "staticmethod")
                if not b:
                    continue
                for p_ in out[id(t)]:
                    a = b.get(p_)
                    if isinstance(a, ast.Name) and a.id in ps and a.id not in rebound and a.id not in out.get(id(g), set()):
                        out.setdefault(id(g), set()).add(a.id)
                        changed = True
    return out


def expansion_covers_members(ctx: Ctx, rep: Report, rid: str = "R05.12") -> None:
    """The networks of a group are the networks of all its members: in every `ipnets` method, a loop over the members
    has no way round - each iteration either raises or adds that member's networks to the result (a member left out of a
    candidate makes the candidate look smaller than it is: 'covered' although a part of it is not)."""
    from .common import loop_body_paths

    rep.rule(rid)
    n = 0
    for cls in ctx.prog.classes.values():
        f = cls.methods.get("ipnets")
        if f is None:
            continue
        cfg = ctx.cfg(f)
        for lp in [x for x in cfg.live if x.kind == "for" and "items" in src(x.ast.iter)]:
            n += 1
            rep.instance()
            var = {y.id for y in ast.walk(lp.ast.target) if isinstance(y, ast.Name)}
            bad = None
            for path in loop_body_paths(cfg, lp):
                if path[-1][0] is not lp:
                    continue  # leaves the loop (return / raise)
                grows = False
                derived = set(var)
                for nd, _lab in path:
                    if nd.kind == "stmt" and isinstance(nd.ast, (ast.Assign, ast.AnnAssign)) and nd.ast.value is not None and ({y.id for y in ast.walk(nd.ast.value) if isinstance(y, ast.Name)} & derived):
                        t = nd.ast.targets[0] if isinstance(nd.ast, ast.Assign) else nd.ast.target
                        derived |= {y.id for y in ast.walk(t) if isinstance(y, ast.Name)}
                    if nd.kind == "stmt" and nd.ast is not None:
                        for x in ast.walk(nd.ast):
                            if isinstance(x, ast.Call) and isinstance(x.func, ast.Attribute) and x.func.attr in ("extend", "append") and x.args and ({y.id for y in ast.walk(x.args[0]) if isinstance(y, ast.Name)} & derived):
                                grows = True
                            if isinstance(x, ast.AugAssign) and isinstance(x.op, ast.Add) and ({y.id for y in ast.walk(x.value) if isinstance(y, ast.Name)} & derived):
                                grows = True
                if not grows:
                    bad = path
                    break
            if bad is not None:
                held = "; ".join(f"{snippet(nd.ast, 40)}{'' if lab == 'T' else ' (false)'}" for nd, lab in bad if nd.kind == "cond" and lab in ("T", "F"))
                rep.violation(f.qualname, f"for {src(lp.ast.target)} in {snippet(lp.ast.iter, 30)}: path [{held}]", "an iteration can end without adding this member's networks: the group is answered for as if the member were not there", where(f, lp.ast), inp="a group with a non-contiguous member, asked with the option that skips it")
            else:
                rep.ok(f"{f.qualname}: for {src(lp.ast.target)} in {snippet(lp.ast.iter, 30)}", "every iteration raises or adds the member's networks", where=where(f, lp.ast))
        for x in own_nodes(f.node):
            if isinstance(x, (ast.ListComp, ast.GeneratorExp, ast.SetComp)) and any("items" in src(g_.iter) for g_ in x.generators):
                n += 1
                rep.instance()
                if any(g_.ifs for g_ in x.generators):
                    rep.violation(f.qualname, snippet(x, 70), "members are filtered out of the expansion of the group", where(f, x))
                else:
                    rep.ok(f"{f.qualname}: {snippet(x, 50)}", "runs over all members", where=where(f, x))
    rep.floor(1, "member loops of ipnets()") if n else None


ZERO_IS_A_VALUE = {"_prefixlen": "prefix length 0 is the whole address space", "max_ncwb": "limit 0 means no non-contiguous bit is allowed", "_max_ncwb": "limit 0 means no non-contiguous bit is allowed", "_number": "protocol 0 is ip"}


def zero_is_not_unset(ctx: Ctx, rep: Report, rid: str = "R05.13") -> None:
    """Attributes for which 0 is a value like any other (prefix length, bit limit, protocol number) are never defaulted or
    tested by truthiness: `self._prefixlen or 32` turns the all-wild mask into a host."""
    rep.rule(rid)
    hits = 0
    n = 0
    for f in ctx.prog.funcs:
        if f.cls is None:
            continue
        for x in own_nodes(f.node):
            cand = None
            if isinstance(x, ast.BoolOp) and isinstance(x.op, ast.Or) and isinstance(x.values[0], ast.Attribute) and src(x.values[0].value) == "self" and x.values[0].attr in ZERO_IS_A_VALUE:
                cand = x.values[0]
            elif isinstance(x, ast.UnaryOp) and isinstance(x.op, ast.Not) and isinstance(x.operand, ast.Attribute) and src(x.operand.value) == "self" and x.operand.attr in ZERO_IS_A_VALUE:
                cand = x.operand
            elif isinstance(x, (ast.If, ast.IfExp, ast.While)) and isinstance(x.test, ast.Attribute) and src(x.test.value) == "self" and x.test.attr in ZERO_IS_A_VALUE:
                cand = x.test
            if cand is not None:
                n += 1
                hits += 1
                rep.instance()
                rep.violation(f.qualname, snippet(x if not isinstance(x, (ast.If, ast.While)) else x.test, 60), f"`self.{cand.attr}` is tested / defaulted by truthiness, but {ZERO_IS_A_VALUE[cand.attr]}: the value 0 is replaced or treated as absent", where(f, cand), inp="Wildcard('0.0.0.0 255.255.255.255').ipnets()")
    rep.instance()
    if hits == 0:
        rep.ok("package", f"no truthiness test or `or`-default on {sorted(set(k.lstrip('_') for k in ZERO_IS_A_VALUE))}", nontrivial=False)


def rejected_address_changes_nothing(ctx: Ctx, rep: Report, rid: str = "R05.17") -> None:
    """"Rejected with an error, never approximated", one level up: an address whose new line is refused (mask over the
    limit, bad octet) is what it was.  The readers of `AddressBase` / `AddressAg` build the Wildcard (the validation) before
    they store type, group name or sequence number - stored first, a refused `a.line = ...` leaves the new kind over the
    old network (`host 10.0.0.0` that still covers 10.0.0.0/24)."""
    from .c08 import rejected_leaves_unchanged

    targets = []
    for q, attrs in (("AddressBase._line__host", ("_type", "_addrgroup")), ("AddressBase._line__prefix", ("_type", "_addrgroup")), ("AddressBase._line__wildcard", ("_type", "_addrgroup")), ("AddressAg.line.setter", ("_sequence",))):
        f = ctx.prog.find_func(q)
        if f is not None:
            have = tuple(a for a in attrs if any(isinstance(x, ast.Attribute) and isinstance(x.ctx, ast.Store) and src(x.value) == "self" and x.attr == a for x in own_nodes(f.node)))
            if have:
                targets.append((q, have))
    if not targets:
        rep.rule(rid)
        rep.note(f"{rid} the address readers were not recognised - not judged")
        return
    rejected_leaves_unchanged(ctx, rep, rid=rid, targets=tuple(targets), what="the new kind / group name / number over the old network: the address renders another set than it matches (`host 10.0.0.0` that still covers 10.0.0.0/24), and every containment and shadow answer follows the old network", inp="a = Address('10.0.0.0 0.0.0.255'); a.line = 'host 10.0.0.300'  # ValueError; a.line == 'host 10.0.0.0', a.ipnets() == [10.0.0.0/24]")


def network_from_a_checked_mask(ctx: Ctx, rep: Report, rid: str = "R05.18") -> None:
    """"A single network is reported exactly when the mask is contiguous": `IPv4Network("A/M")` reads M as a net mask OR
    as a host mask.  Where the wildcard module inverts a wildcard mask and hands the result to `IPv4Network`, every path
    from the inversion to the constructor passes the test that the inverted text IS a net mask (`is_mask`): without it a
    wildcard of leading ones (128.0.0.0 -> 127.255.255.255, a host mask) is read as another network, or an
    undocumented "has host bits set" ValueError escapes for a legal line."""
    rep.rule(rid)
    n = 0
    from .normalise import normalised as _nrm

    for f in [g for g in ctx.prog.funcs if g.module.name.endswith("wildcard")]:
        f = _nrm(ctx, f, "ifexp")  # `suffix = mask if is_mask(mask) else ""` is a test like any other
        cfg = ctx.cfg(f)
        inv = [nd for nd in cfg.live if nd.kind == "stmt" and isinstance(nd.ast, (ast.Assign, ast.AnnAssign)) and getattr(nd.ast, "value", None) is not None and any(isinstance(c, ast.Call) and src(c.func).endswith("invert_mask") for c in ast.walk(nd.ast.value))]
        nets = [nd for nd in cfg.live if nd.ast is not None and nd.kind in ("stmt", "cond") and any(isinstance(c, ast.Call) and src(c.func).endswith("IPv4Network") for c in ast.walk(nd.ast))]
        for d in inv:
            for nd in nets:
                if nd not in cfg.reachable(d, labels_avoid=("exc",)):
                    continue
                n += 1
                rep.instance()
                checked = cfg.all_paths_pass(d, nd, lambda x: x.kind == "cond" and x.ast is not None and any(isinstance(c, ast.Call) and src(c.func).endswith("is_mask") for c in ast.walk(x.ast)), labels_avoid=("exc",))
                if checked:
                    rep.ok(f"{f.qualname}: {snippet(d.ast, 40)}", "the inverted mask is tested to be a net mask before IPv4Network reads it", where=where(f, d.ast))
                else:
                    rep.violation(f.qualname, f"{snippet(d.ast, 40)} ... {snippet(nd.ast, 40)}", "the inverted wildcard mask reaches IPv4Network without having been tested to be a net mask: ipaddress also accepts HOST masks, so a wildcard of leading ones (`10.0.0.0 128.0.0.0`) is read as the network of its own inverse, or refused with an undocumented 'has host bits set' ValueError, instead of being expanded into its prefixes", where(f, d.ast), inp="Wildcard('10.0.0.0 128.0.0.0')  /  Address('10.0.0.1 255.0.0.0')")
    if n == 0:
        rep.note(f"{rid} no inverted mask reaches an IPv4Network construction in the wildcard module - not judged")


def _enclosing_loop(fn: ast.AST, node: ast.AST) -> Optional[ast.AST]:
    p_ = getattr(node, "_parent", None)
    while p_ is not None and p_ is not fn:
        if isinstance(p_, (ast.For, ast.While)):
            return p_
        p_ = getattr(p_, "_parent", None)
    return None


def limit_error_not_swallowed(ctx: Ctx, rep: Report, rid: str = "R05.16") -> None:
    """"Rejected with an error, never approximated" holds for containers too: where a builder skips an item whose text it
    cannot read (`except ValueError: log; continue`) and the construction in the `try` can raise the limit error
    (NetmaskValueError is a ValueError), a handler for the limit error that re-raises stands BEFORE the skipping one -
    as in `AceGroup._line_to_oace`.  Without it the group is built without the member whose mask needs too many bits:
    its text, items and prefixes silently describe a smaller set."""
    from ..cfg import handler_classes

    rep.rule(rid)
    n = 0
    for f in ctx.prog.funcs:
        for t in [x for x in own_nodes(f.node) if isinstance(x, ast.Try)]:
            raises_limit = any("NetmaskValueError" in ctx.excs.call_raises(f, c) for b in t.body for c in ast.walk(b) if isinstance(c, ast.Call))
            if not raises_limit:
                continue
            for hi, h_ in enumerate(t.handlers):
                cs = handler_classes(h_)
                # a handler that does not end in `raise` swallows the error: with `continue`/`return`/`break`, or by simply
                # falling through (the `else:` of the try holds what only happens on success)
                skips = not isinstance(h_.body[-1], ast.Raise) and (any(isinstance(x, (ast.Continue, ast.Return, ast.Break)) for b in h_.body for x in ast.walk(b)) or bool(t.orelse) or _enclosing_loop(f.node, t) is not None)
                if not skips or not (not cs or any(c in ("ValueError", "Exception", "BaseException") for c in cs)):
                    continue
                n += 1
                rep.instance()
                earlier = [e for e in t.handlers[:hi] if "NetmaskValueError" in handler_classes(e) and isinstance(e.body[-1], ast.Raise)]
                # ... or the skipping handler itself lets the limit error through first: `if isinstance(ex, NetmaskValueError): raise`
                inner = [x for x in h_.body if isinstance(x, ast.If) and isinstance(x.test, ast.Call) and src(x.test.func) == "isinstance" and len(x.test.args) == 2 and h_.name and src(x.test.args[0]) == h_.name and "NetmaskValueError" in src(x.test.args[1]) and x.body and isinstance(x.body[-1], ast.Raise)]
                if inner and h_.body.index(inner[0]) == 0:
                    earlier = earlier or [h_]
                if earlier:
                    rep.ok(f"{f.qualname}: except {', '.join(cs) or '<bare>'}", "the limit error is re-raised by an earlier handler", where=where(f, h_))
                else:
                    rep.violation(f.qualname, f"except {', '.join(cs) or '<bare>'}: skip", "the handler that skips an unreadable item also catches the limit error (NetmaskValueError is a ValueError): a member whose wildcard needs more non-contiguous bits than max_ncwb is left out without an error - the group is an approximation of its text", where(f, h_), inp="AddrGroup('object-group ip address X\\n 10 host 1.1.1.1\\n 20 10.0.0.0 0.0.7.7', platform='nxos', max_ncwb=2)  -> built with one member")
    if n == 0:
        rep.note(f"{rid} no skipping handler around a construction that can raise the limit error - not judged")


def drivers_hand_over_limit(ctx: Ctx, rep: Report, rid: str = "R05.15") -> None:
    """The config-level drivers take `max_ncwb` from the caller; every object with a limit that they (or the module helpers
    they call) build receives it: the constructor call carries `max_ncwb=` or spreads the function's `**kwargs` / a local
    dict that has the key.  A spread of parser output alone (`AddrGroup(**d)`) builds the object under the default 16:
    `acls(cfg, max_ncwb=17)` refuses a group member that the same call accepts in an entry."""
    rep.rule(rid)
    holders = _limit_holders(ctx)
    n = 0
    mod_funcs = [g for g in ctx.prog.funcs if g.cls is None and g.module.name.endswith("functions")]
    # the drivers that take a limit, and the module helpers they call (transitively)
    scope = [g for g in mod_funcs if any(isinstance(x, ast.Name) and x.id == "max_ncwb" and isinstance(x.ctx, ast.Store) for x in own_nodes(g.node)) or "max_ncwb" in g.params]
    todo = list(scope)
    while todo:
        g = todo.pop()
        for e in ctx.cg.all_edges(g):
            if isinstance(e.target, Func) and e.target in mod_funcs and e.target not in scope and not e.weak:
                scope.append(e.target)
                todo.append(e.target)
    for g in sorted(scope, key=lambda x: x.qualname):
        kwname = g.node.args.kwarg.arg if g.node.args.kwarg else None
        env = single_env(g.node)
        for c in [x for x in own_nodes(g.node) if isinstance(x, ast.Call) and isinstance(x.func, ast.Name) and x.func.id in holders and x.func.id in ctx.prog.classes]:
            n += 1
            rep.instance()
            ok = any(k.arg == "max_ncwb" for k in c.keywords)
            for k in c.keywords:
                if k.arg is None and isinstance(k.value, ast.Name):
                    if k.value.id == kwname:
                        ok = True
                    d = env.get(k.value.id)
                    if isinstance(d, ast.Call) and src(d.func) == "dict" and any(kk.arg == "max_ncwb" for kk in d.keywords):
                        ok = True
                    if isinstance(d, ast.Call) and isinstance(d.func, ast.Attribute) and d.func.attr == "data":
                        ok = True  # the exported data of an object: carries that object's own limit
                    if isinstance(d, ast.Dict) and any(isinstance(kk, ast.Constant) and kk.value == "max_ncwb" for kk in d.keys):
                        ok = True
            if ok:
                rep.ok(f"{g.qualname}: {snippet(c, 40)}", "receives the caller's max_ncwb", nontrivial=False, where=where(g, c))
            else:
                rep.violation(g.qualname, snippet(c, 60), f"the {c.func.id} is built without the limit the caller gave to the driver (no `max_ncwb=`, no spread of the driver's keyword arguments): its members are checked against the default 16 - a member with more non-contiguous bits is refused although the caller allowed it, one with more than a smaller limit is attached although the caller forbade it", where(g, c), inp="acls(<nxos config whose group G has member '10 10.0.0.0 1.255.255.1'>, platform='nxos', max_ncwb=17)")
    # a helper that builds from its own **kwargs gets the limit only if its caller passes it on
    spreaders = set()
    for g in scope:
        kwname = g.node.args.kwarg.arg if g.node.args.kwarg else None
        if kwname and any(isinstance(x, ast.Call) and isinstance(x.func, ast.Name) and x.func.id in holders and any(k.arg is None and isinstance(k.value, ast.Name) and k.value.id == kwname for k in x.keywords) for x in own_nodes(g.node)):
            spreaders.add(g)
    for g in sorted(scope, key=lambda x: x.qualname):
        kwname = g.node.args.kwarg.arg if g.node.args.kwarg else None
        for e in ctx.cg.all_edges(g):
            if isinstance(e.target, Func) and e.target in spreaders and isinstance(e.site, ast.Call) and not e.weak and e.target.name.startswith("_"):
                n += 1
                rep.instance()
                c = e.site
                if any(k.arg == "max_ncwb" for k in c.keywords) or any(k.arg is None and isinstance(k.value, ast.Name) and k.value.id == kwname for k in c.keywords):
                    rep.ok(f"{g.qualname}: {snippet(c, 40)}", "passes the limit on to the helper that builds from its keyword arguments", nontrivial=False, where=where(g, c))
                else:
                    rep.violation(g.qualname, snippet(c, 60), f"{e.target.qualname} builds objects from its keyword arguments, and this call gives it no `max_ncwb`: the objects are checked against the default 16, not against the caller's limit", where(g, c), inp="acls(cfg, max_ncwb=17)")
    rep.floor(2, "constructions of limit holders in the config-level drivers") if n else None


def memo_not_handed_out(ctx: Ctx, rep: Report, rid: str = "R05.14") -> None:
    """A public method never returns the list it keeps as its memo: the caller owns what it gets (`nets = w.ipnets();
    nets.extend(...)`), and a change of that list would be every later answer of the object (`subnet_of`, `in`, shadow
    tests all read `ipnets()`).  The memoising method returns a copy (`list(self._m)`)."""
    rep.rule(rid)
    roots = [(f, why) for f, why in _memo_exposers(ctx).values() if "its memo" in why]
    n = 0
    for cls in ctx.prog.classes.values():
        for f in list(cls.methods.values()) + list(cls.getters.values()):
            if _instance_memo(f) is None or f.name.startswith("_"):
                continue
            n += 1
            rep.instance()
            hit = [why for g, why in roots if g is f]
            if hit:
                rep.violation(f.qualname, hit[0], "the list kept as memo is handed to the caller itself: when the caller changes the list it received (extends it, deletes from it), every later answer computed from the memo is about other networks - a non-contiguous wildcard then contains addresses it does not match", where(f), inp="top = Address('10.0.0.0 0.0.3.3'); nets = top.ipnets(); nets.extend(Address('20.0.0.0 0.0.0.255').ipnets()); Address('host 20.0.0.9').subnet_of(top) is True")
            else:
                rep.ok(f.qualname, "returns a copy of its memo, never the memo list itself", where=where(f))
    if n == 0:
        rep.note(f"{rid} no public memoising method found - not judged")


def memo_filled_in_place(ctx: Ctx, rep: Report, rid: str = "R05.10") -> None:
    """A memo becomes visible only when it is complete: the method that answers from `self._m` when it is set does not
    grow that very list while computing (an error or interruption half way leaves a partial list that every later query
    returns as the whole answer); it computes into a local and assigns."""
    rep.rule(rid)
    n = 0
    for cls in ctx.prog.classes.values():
        for f in list(cls.methods.values()) + list(cls.getters.values()):
            aliases: Dict[str, str] = {}
            for x in own_nodes(f.node):
                if isinstance(x, (ast.Assign, ast.AnnAssign)) and x.value is not None:
                    t = x.targets[0] if isinstance(x, ast.Assign) else x.target
                    if isinstance(t, ast.Name) and isinstance(x.value, ast.Attribute) and src(x.value.value) == "self":
                        aliases[t.id] = x.value.attr
            returned_when_set = set()
            for x in own_nodes(f.node):
                if isinstance(x, ast.If) and any(isinstance(r, ast.Return) for r in x.body):
                    names = {y.id for y in ast.walk(x.test) if isinstance(y, ast.Name)} | {y.attr for y in ast.walk(x.test) if isinstance(y, ast.Attribute) and src(y.value) == "self"}
                    for r in x.body:
                        if isinstance(r, ast.Return) and r.value is not None:
                            rvn = r.value
                            if isinstance(rvn, ast.Call) and src(rvn.func) in ("list", "tuple", "sorted") and len(rvn.args) == 1:
                                rvn = rvn.args[0]  # a copy of the memo is handed out: still answered from the memo
                            rv = src(rvn)
                            if rv in aliases and rv in names:
                                returned_when_set.add((rv, aliases[rv]))
                            elif rv.startswith("self.") and rv[5:] in names:
                                returned_when_set.add((rv, rv[5:]))
            for expr, attr in sorted(returned_when_set):
                n += 1
                rep.instance()
                grown = [x for x in own_nodes(f.node) if isinstance(x, ast.Call) and isinstance(x.func, ast.Attribute) and x.func.attr in ("append", "extend", "insert", "add", "update") and src(x.func.value) == expr]
                if grown:
                    rep.violation(f.qualname, f"{snippet(grown[0], 50)} on the memo self.{attr}", f"the memo self.{attr} is filled in place while it is computed: when the computation stops half way the partial list stays and is returned as the complete answer by every later query", where(f, grown[0]))
                else:
                    rep.ok(f"{f.qualname}: memo self.{attr}", "computed into a local, assigned when complete", where=where(f))
    if n == 0:
        rep.note(f"{rid} no method answers from an attribute when it is set")


def r05_9(ctx: Ctx, rep: Report, rid: str = "R05.9") -> None:
    """The list a memoised method hands out is the memo itself: whoever receives it must not change it, or the owner
    answers every later query from the changed list."""
    rep.rule(rid)
    exposers = _memo_exposers(ctx)
    if not exposers:
        rep.note(f"{rid} no method hands out its memo (copies only): nothing to protect")
        return
    names = {f.name for f, _ in exposers.values()}
    mutated = _mutated_params(ctx)
    from .common import bind_call

    def handed_to_mutator(g: Func, arg: ast.AST) -> Optional[ast.AST]:
        """The call (in g) that receives `arg` in a parameter its callee changes in place."""
        par = getattr(arg, "_parent", None)
        if isinstance(par, ast.keyword):
            par = getattr(par, "_parent", None)
        if not isinstance(par, ast.Call) or par.func is arg:
            return None
        for e in ctx.cg.all_edges(g):
            if e.site is par and e.kind == "call" and not e.weak and id(e.target) in mutated:
                t = e.target
                b = bind_call(t, par, bound=t.cls is not None and t.kind != "staticmethod")
                if b and any(b.get(p_) is arg for p_ in mutated[id(t)]):
                    return par
        return None

    n_sites = 0
    for g in ctx.prog.funcs:
        calls = []
        for x in own_nodes(g.node):
            if isinstance(x, ast.Call) and isinstance(x.func, ast.Attribute) and x.func.attr in names:
                tg = [e.target for e in ctx.cg.all_edges(g) if e.site is x]
                # unresolved receivers (getattr results, elements of untyped lists) count: the name is what the memoising classes share
                if not tg or any(id(t) in exposers for t in tg):
                    calls.append(x)
        if not calls:
            continue
        cfg = ctx.cfg(g)
        for c in calls:
            n_sites += 1
            rep.instance()
            par = getattr(c, "_parent", None)
            bad: Optional[ast.AST] = None
            # direct: w.ipnets().append(x) / w.ipnets()[0] = x / w.ipnets() += ...
            if isinstance(par, ast.Attribute) and par.attr in MUTATORS and isinstance(getattr(par, "_parent", None), ast.Call):
                bad = par
            elif isinstance(par, ast.Subscript) and par.value is c and isinstance(par.ctx, (ast.Store, ast.Del)):
                bad = par
            elif handed_to_mutator(g, c) is not None:
                bad = c
            alias = None
            if isinstance(par, (ast.Assign, ast.AnnAssign)) and par.value is c:
                t = par.targets[0] if isinstance(par, ast.Assign) else par.target
                if isinstance(t, ast.Name):
                    alias = t.id
            elif isinstance(par, ast.NamedExpr) and par.value is c and isinstance(par.target, ast.Name):
                alias = par.target.id
            if alias and bad is None:
                dn0 = cfg.node_containing(c)
                work: List[Tuple[str, Node]] = [(alias, dn0)] if dn0 is not None else []
                done: Set[Tuple[str, int]] = set()
                while work and bad is None:
                    alias_, dn = work.pop()
                    if (alias_, id(dn)) in done:
                        continue
                    done.add((alias_, id(dn)))

                    def rebinding(m: Node, dn=dn, alias=alias_) -> bool:
                        return m is not dn and m.ast is not None and any(isinstance(y, ast.Name) and y.id == alias and isinstance(y.ctx, ast.Store) for y in (ast.walk(m.ast.target) if m.kind == "for" else ast.walk(m.ast) if m.kind in ("stmt", "cond") else []))

                    for m in cfg.reachable(dn, avoid=rebinding, labels_avoid=("exc",)) | {dn}:
                        if m.ast is None or m.kind not in ("stmt", "cond", "for"):
                            continue
                        root = m.ast.iter if m.kind == "for" else m.ast
                        # a second name for the same list: `result = received`
                        if m.kind == "stmt" and isinstance(m.ast, (ast.Assign, ast.AnnAssign)) and isinstance(m.ast.value, ast.Name) and m.ast.value.id == alias_ and m is not dn:
                            t2 = m.ast.targets[0] if isinstance(m.ast, ast.Assign) else m.ast.target
                            if isinstance(t2, ast.Name):
                                work.append((t2.id, m))
                        for y in ast.walk(root):
                            if isinstance(y, ast.Name) and y.id == alias_:
                                py = getattr(y, "_parent", None)
                                if isinstance(py, ast.Attribute) and py.attr in MUTATORS and isinstance(getattr(py, "_parent", None), ast.Call) and getattr(py, "_parent").func is py:
                                    bad = py
                                elif isinstance(py, ast.Subscript) and py.value is y and isinstance(py.ctx, (ast.Store, ast.Del)):
                                    bad = py
                                elif isinstance(py, ast.AugAssign) and py.target is y:
                                    bad = py
                                elif isinstance(y.ctx, ast.Load) and handed_to_mutator(g, y) is not None:
                                    bad = y
                        if bad is not None:
                            break
            if bad is not None:
                rep.violation(g.qualname, f"{snippet(c, 40)} ... {snippet(getattr(bad, '_parent', bad), 50)}", "the list returned here is the owner's memo itself; changing it in place (here or in the function it is handed to) changes what the owner answers from then on", where(g, bad), inp="a group whose first member is a non-contiguous wildcard: group.ipnets(), then member.ipnets()")
            else:
                rep.ok(f"{g.qualname}: {snippet(c, 50)}", "the received memo list is only read", where=where(g, c), nontrivial=False)
    rep.note(f"{rid} {len(exposers)} functions can hand out a memo list; {n_sites} receiving call sites examined")


def run(ctx: Ctx, rep: Report, tier: str) -> None:
    n = memo_rules(ctx, rep)
    # positive fixture: the functools-cache form must be recognised on every run
    from ..fixtures import run_fixture

    run_fixture("memo", lambda c, r: memo_rules(c, r, rid="R05.1"), expect_violation="lru_cache")
    rep.rule("R05.1")
    rep.floor(1, "memoised methods (functools cache or instance memo)") if n else rep.note("R05.1 no memoised method in the package (nothing can go stale)")
    # R05.19 "no stale results": the prefixes are computed from the object alone - no store outside the objects (a
    # module-level cache shared by "equal" wildcards) feeds them (C17 R17.2)
    from .c17 import r17_2

    sub172 = Report("C05")
    r17_2(ctx, sub172)
    rep.absorb(sub172, "R05.19")
    r05_2(ctx, rep)
    r05_3(ctx, rep)
    r05_4(ctx, rep)
    r05_5(ctx, rep)
    r05_6(ctx, rep)
    # R05.7 no stale members: see C03 R03.11
    from .c03 import members_only_for_groups

    members_only_for_groups(ctx, rep, rid="R05.7")
    r05_8(ctx, rep)
    r05_9(ctx, rep)
    memo_filled_in_place(ctx, rep)
    zero_is_not_unset(ctx, rep)
    memo_not_handed_out(ctx, rep)
    drivers_hand_over_limit(ctx, rep)
    limit_error_not_swallowed(ctx, rep)
    network_from_a_checked_mask(ctx, rep)
    rejected_address_changes_nothing(ctx, rep)
    expansion_covers_members(ctx, rep)
    # R05.11 a factory hands the caller's limit (all its keyword arguments) to the object it builds, on every path
    from .c16 import dict_builders_pass_everything

    dict_builders_pass_everything(ctx, rep, rid="R05.11", factories=True)


# what the later rounds (seeding rounds 2-5, refactor twins, defect hunt) added to what the check decides
LATER_ROUNDS = "the memo is never handed out itself nor grown in place, the limit reaches every object the config-level drivers build, the limit error is never swallowed by a skipping handler, a refused address line changes nothing, an inverted wildcard mask is tested before it is read as a net mask, no module-level cache feeds the prefixes"
EXPLANATION = EXPLANATION.replace(" Does not decide", " Later rounds added: " + LATER_ROUNDS + ". Does not decide", 1) if " Does not decide" in EXPLANATION else EXPLANATION + " Later rounds added: " + LATER_ROUNDS + "."
