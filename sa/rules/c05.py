"""C05 Wildcard -> prefixes: no stale derived value, limits reject (never truncate), rejection propagates."""

from __future__ import annotations

import ast
from typing import Dict, List, Optional, Set, Tuple

from ..cfg import Node, exc_is_subclass, handler_classes
from ..core import Ctx, Report, snippet, where
from ..intervals import IntSet, NotInterval, cond_to_intset, relation
from ..model import AnalysisError, Class, Func, own_nodes, src
from ..pathsem import function_paths, resolve_local
from .common import chain, deep_resolve, reachable_without_edges

PROPERTY = "C05"
LEVEL = "other"
EXPLANATION = (
    "Decides the history clause (no memoised or partially updated derived value can survive a reassignment of the "
    "line), the reject-never-truncate clause (the limit is compared as count > limit on the very list that is returned, "
    "on the only path, with the limit range 0..30) and that the rejection is not swallowed on the way up to the "
    "constructors. Does not decide exactness of the expansion (cover, disjointness, 2^k count, single-network "
    "detection): statements about 2^64 bit patterns."
)
ASSUMPTIONS = ["ipaddress raises only ValueError subclasses for malformed text"]

CACHE_DECORATORS = {"lru_cache", "cache", "cached_property"}

# handlers that may swallow a ValueError raised by an over-limit member: governed by C12 (member dropped with a log record)
C12_GOVERNED = {"AddrGroup.line.setter": "address-group member loop: logs and drops the member (C12 R12.5)"}


def memo_rules(ctx: Ctx, rep: Report, rid: str = "R05.1", only_class: Optional[str] = None) -> int:  # noqa: C901
    """Memo soundness for functools caches and for instance-attribute memos. Returns number of memos found."""
    rep.rule(rid)
    found = 0
    ef = ctx.effects
    for cls in ctx.prog.classes.values():
        if only_class and cls.name != only_class:
            continue
        for f in list(cls.methods.values()) + list(cls.getters.values()):
            # ---- functools caches keyed by the receiver
            decs = [d for d in f.decorators if d in CACHE_DECORATORS]
            if decs:
                found += 1
                rep.instance()
                reads = ef.self_reads(f, None)
                mutable = _mutable_after_init(ctx, cls)
                key = _hash_key(ctx, cls)
                stale = sorted((reads & mutable) - key)
                if stale:
                    writers = sorted({w for a in stale for w in _writers_of(ctx, cls, a)})
                    rep.violation(
                        f.qualname,
                        f"@{decs[0]} over attributes {stale}",
                        f"the cache is keyed by {'object identity' if not key else sorted(key)} but the result depends on {stale}, "
                        f"which {writers} reassign: a query after a reassignment answers for the old value",
                        where(f),
                        inp='w = Wildcard("10.0.0.0 0.0.0.3"); w.ipnets(); w.line = "20.0.0.0 0.0.0.255"; w.ipnets()',
                    )
                else:
                    rep.ok(f"{f.qualname} @{decs[0]}", "reads no attribute that can change after construction (or all are part of the hash key)", where=where(f))
                continue
            # ---- instance memo: `if self._m...: return self._m` ... `self._m = value`
            memo = _instance_memo(f)
            if memo is None:
                continue
            found += 1
            rep.instance()
            deps = ef.self_reads(f, None) - {memo}
            resets_needed = []
            for g in [x for c in cls.mro for x in c.all_funcs()]:
                if g is f or g.name == "__init__":
                    continue
                # an inherited accessor that the class overrides is not a writer of this class
                own = (cls.lookup_setter(g.name) if g.kind == "setter" else cls.lookup_getter(g.name) if g.kind == "getter" else cls.lookup_method(g.name))
                if own is not g:
                    continue
                direct = {t.attr for n in own_nodes(g.node) if isinstance(n, (ast.Assign, ast.AnnAssign, ast.AugAssign)) for t in (n.targets if isinstance(n, ast.Assign) else [n.target]) if isinstance(t, ast.Attribute) and src(t.value) == "self"}
                if direct & deps:
                    resets_needed.append((g, sorted(direct & deps)))
            if not resets_needed:
                rep.ok(f"{f.qualname}: memo {memo}", "no method other than __init__ writes what the memo depends on", where=where(f))
            for g, attrs in resets_needed:
                cfg = ctx.cfg(g)

                def is_reset(n: Node) -> bool:
                    if n.kind == "stmt" and isinstance(n.ast, (ast.Assign, ast.AnnAssign)):
                        tg = n.ast.targets if isinstance(n.ast, ast.Assign) else [n.ast.target]
                        for t in tg:
                            if isinstance(t, ast.Attribute) and src(t.value) == "self" and t.attr == memo:
                                v = n.ast.value
                                return isinstance(v, ast.Constant) and not v.value or isinstance(v, (ast.List, ast.Dict, ast.Tuple, ast.Set)) and not getattr(v, "elts", getattr(v, "keys", []))
                    if n.kind == "stmt" and isinstance(n.ast, ast.Delete):
                        return any(isinstance(t, ast.Attribute) and t.attr == memo for t in n.ast.targets)
                    return False

                def is_dep_write(n: Node) -> bool:
                    if n.kind == "stmt" and isinstance(n.ast, (ast.Assign, ast.AnnAssign, ast.AugAssign)):
                        tg = n.ast.targets if isinstance(n.ast, ast.Assign) else [n.ast.target]
                        return any(isinstance(t, ast.Attribute) and src(t.value) == "self" and t.attr in attrs for t in tg)
                    return False

                bad = None
                for wn in [n for n in cfg.live if is_dep_write(n)]:
                    if not cfg.all_paths_pass(wn, cfg.exit, is_reset, labels_avoid=("exc",)):
                        bad = wn
                        break
                if bad is not None:
                    rep.violation(
                        g.qualname,
                        f"{snippet(bad.ast)} without resetting {memo}",
                        f"{f.qualname} memoises its result in {memo} and reads {attrs}; this writer can return without invalidating the memo: later queries describe the old line",
                        where(g, bad.ast),
                        inp='w = Wildcard("10.0.0.0 0.0.0.3"); w.ipnets(); w.line = "20.0.0.0 0.0.0.255"; w.ipnets()',
                    )
                else:
                    rep.ok(f"{g.qualname} writes {attrs}", f"every path from the write to the normal exit resets {memo}", where=where(g))
    return found


def _instance_memo(f: Func) -> Optional[str]:
    """Name of the attribute `f` uses as its own memo: returned when set, and assigned from the computed result."""
    returned: Set[str] = set()
    assigned: Set[str] = set()
    for n in own_nodes(f.node):
        if isinstance(n, ast.Return) and isinstance(n.value, ast.Attribute) and src(n.value.value) == "self":
            returned.add(n.value.attr)
        if isinstance(n, ast.Assign):
            for t in n.targets:
                if isinstance(t, ast.Attribute) and src(t.value) == "self":
                    assigned.add(t.attr)
    both = returned & assigned
    if f.kind in ("setter",) or f.name == "__init__":
        return None
    return sorted(both)[0] if both else None


def _mutable_after_init(ctx: Ctx, cls: Class) -> Set[str]:
    out: Set[str] = set()
    for c in cls.mro:
        for g in c.all_funcs():
            if g.name == "__init__":
                continue
            for n in own_nodes(g.node):
                if isinstance(n, (ast.Assign, ast.AnnAssign, ast.AugAssign)):
                    for t in n.targets if isinstance(n, ast.Assign) else [n.target]:
                        if isinstance(t, ast.Attribute) and src(t.value) == "self":
                            out.add(t.attr)
    return out


def _writers_of(ctx: Ctx, cls: Class, attr: str) -> List[str]:
    out = []
    for c in cls.mro:
        for g in c.all_funcs():
            if g.name == "__init__":
                continue
            for n in own_nodes(g.node):
                if isinstance(n, (ast.Assign, ast.AnnAssign, ast.AugAssign)):
                    for t in n.targets if isinstance(n, ast.Assign) else [n.target]:
                        if isinstance(t, ast.Attribute) and src(t.value) == "self" and t.attr == attr:
                            out.append(g.qualname)
    return out


def _hash_key(ctx: Ctx, cls: Class) -> Set[str]:
    h = cls.lookup_method("__hash__")
    e = cls.lookup_method("__eq__")
    if h is None or e is None:
        return set()
    return ctx.effects.self_reads(h, None)


def r05_2(ctx: Ctx, rep: Report) -> None:
    rep.rule("R05.2")
    ls = ctx.func("Wildcard.line.setter")
    cfg = ctx.cfg(ls)
    derived: Set[str] = set()
    for n in own_nodes(ls.node):
        if isinstance(n, (ast.Assign, ast.AnnAssign)):
            for t in n.targets if isinstance(n, ast.Assign) else [n.target]:
                if isinstance(t, ast.Attribute) and src(t.value) == "self":
                    derived.add(t.attr)
    surface = ["Wildcard.ipnets", "Wildcard.line.getter", "Wildcard.prefix.getter", "Wildcard.wildmask.getter", "Wildcard.data"]
    reads: Set[str] = set()
    for q in surface:
        f = ctx.prog.find_func(q)
        if f is not None:
            reads |= ctx.effects.self_reads(f, None)
    rep.instance()
    rep.require(len(derived) >= 4, "Wildcard.line setter stores fewer than 4 attributes: anchor changed")
    need = sorted(derived)
    paths = [p for p in function_paths(cfg) if not p.raises]
    for p in paths:
        stored = set()
        for node, lab in p.nodes:
            if node.kind == "stmt" and isinstance(node.ast, (ast.Assign, ast.AnnAssign)):
                for t in node.ast.targets if isinstance(node.ast, ast.Assign) else [node.ast.target]:
                    if isinstance(t, ast.Attribute) and src(t.value) == "self":
                        stored.add(t.attr)
        miss = [a for a in need if a not in stored]
        if miss:
            rep.violation("Wildcard.line.setter", f"path stores {sorted(stored)}", f"a normal path of the setter leaves {miss} describing the previous line", where(ls))
        else:
            rep.ok("Wildcard.line.setter: normal path", f"assigns all of {need}", where=where(ls))
    unread = sorted(a for a in reads if a.startswith("_") and a not in derived and a not in ("_platform", "_uuid", "_max_ncwb"))
    for a in unread:
        rep.note(f"R05.2 query surface reads {a}, which the line setter never assigns")


def r05_3(ctx: Ctx, rep: Report) -> None:
    rep.rule("R05.3")
    ls = ctx.func("Wildcard.line.setter")
    cfg = ctx.cfg(ls)
    rep.instance()

    def is_store(n: Node) -> bool:
        if n.kind == "stmt" and isinstance(n.ast, (ast.Assign, ast.AnnAssign)):
            return any(isinstance(t, ast.Attribute) and src(t.value) == "self" for t in (n.ast.targets if isinstance(n.ast, ast.Assign) else [n.ast.target]))
        return False

    stores = [n for n in cfg.live if is_store(n)]
    raising: List[Tuple[Node, ast.AST, Dict]] = []
    for n in cfg.live:
        if n.ast is None or n.kind not in ("stmt", "cond"):
            continue
        for x in ast.walk(n.ast):
            if isinstance(x, ast.Call):
                r = ctx.excs.call_raises(ls, x)
                if r:
                    raising.append((n, x, r))
    bad = None
    for sn in stores:
        after = cfg.reachable(sn, labels_avoid=("exc",))
        for n, call, r in raising:
            if n in after and (n is not sn):
                bad = (sn, n, call, r)
                break
            if n is sn:
                # the store's own right-hand side may raise before the store happens: fine
                continue
        if bad:
            break
    if bad:
        sn, n, call, r = bad
        cls_names = sorted(r)
        rep.violation(
            "Wildcard.line.setter",
            f"{snippet(call)} after {snippet(sn.ast)}",
            f"a call that may raise {cls_names} runs after the first attribute was stored: a rejected line leaves a hybrid object (new text, old bits)",
            where(ls, call),
            inp='w = Wildcard("10.0.0.0 0.0.1.3", max_ncwb=1); w.line = "20.0.0.0 0.0.5.3"  # rejected; then w.line / w.ipnets()',
        )
    else:
        rep.ok("Wildcard.line.setter", f"{len(raising)} raising call(s), all before the first of {len(stores)} stores", where=where(ls))


def r05_4(ctx: Ctx, rep: Report) -> None:  # noqa: C901
    rep.rule("R05.4")
    nb = ctx.func("Wildcard._ncw_bits")
    cfg = ctx.cfg(nb)
    rep.instance()
    paths = function_paths(cfg)
    normal = [p for p in paths if not p.raises]
    raising = [p for p in paths if p.raises]
    rep.require(bool(normal), "Wildcard._ncw_bits has no normal path")
    ret_names = {src(p.ret) for p in normal if p.ret is not None}
    ok_guard = False
    detail = ""
    for c in cfg.live:
        if c.kind != "cond":
            continue
        t = c.ast
        env = normal[0].env
        rel = relation(
            deep_resolve(t, env) if False else t,
            lambda x: _is_len_of(x, ret_names, env),
            lambda x: src(x) in ("self.max_ncwb", "self._max_ncwb") or (isinstance(x, ast.Name) and src(resolve_local(x, env)) in ("self.max_ncwb", "self._max_ncwb")),
        )
        if rel is None:
            continue
        raise_lab = "T"
        tsucc = [s for lab, s in c.succ if lab == "T"]
        # which edge leads to the raise?
        t_raises = bool(tsucc) and cfg.exit not in cfg.reachable(tsucc[0], labels_avoid=("exc",))
        f_succ = [s for lab, s in c.succ if lab == "F"]
        f_raises = bool(f_succ) and cfg.exit not in cfg.reachable(f_succ[0], labels_avoid=("exc",))
        if t_raises and not f_raises:
            eff = rel
        elif f_raises and not t_raises:
            eff = {"a>b": "a<=b", "a>=b": "a<b", "a<b": "a>=b", "a<=b": "a>b", "a==b": "a!=b", "a!=b": "a==b"}[rel]
        else:
            continue
        detail = f"`{snippet(t)}` raises when {eff.replace('a', 'count').replace('b', 'limit')}"
        if eff == "a>b":
            ok_guard = True
            # the raise class
            classes = set()
            for p in raising:
                for node, lab in p.nodes:
                    if node.kind == "stmt" and isinstance(node.ast, ast.Raise):
                        from ..cfg import raised_class

                        classes.add(raised_class(node.ast))
            if classes and not all(cn and exc_is_subclass(cn, "ValueError") for cn in classes):
                rep.violation("Wildcard._ncw_bits", f"raises {sorted(map(str, classes))}", "the limit rejection is not a ValueError (NetmaskValueError)", where(nb))
            # the return is reachable only through the non-raising edge
            cut = {(c.id, "F" if t_raises else "T")}
            if any(r in reachable_without_edges(cfg, cfg.entry, cut) for r in [n for n in cfg.live if n.kind == "stmt" and isinstance(n.ast, ast.Return)]):
                rep.violation("Wildcard._ncw_bits", snippet(t), "the bits can be returned on a path that bypasses the limit check", where(nb, t))
                ok_guard = False
        else:
            rep.violation(
                "Wildcard._ncw_bits",
                snippet(t),
                f"the limit guard rejects when {eff.replace('a', 'count').replace('b', 'limit')}; the property rejects a mask needing *more* bits than the limit (count > limit)",
                where(nb, t),
                inp='Wildcard("10.0.0.0 0.0.1.3", max_ncwb=1)  # exactly at the limit',
            )
            return
    if ok_guard:
        rep.ok("Wildcard._ncw_bits", detail + "; count = len(<returned list>); the return is dominated by the passing edge", where=where(nb))
    else:
        rep.violation("Wildcard._ncw_bits", "limit guard", "no guard `len(<returned bits>) > self.max_ncwb` that raises dominates the return: an over-limit mask is expanded or truncated instead of rejected", where(nb))
    # reached on every normal path from the setter
    ls = ctx.func("Wildcard.line.setter")
    reach_nb = ctx.cg.reaching(nb)
    rep.instance()
    lcfg = ctx.cfg(ls)

    def calls_into(n: Node) -> bool:
        if n.ast is None:
            return False
        for x in ast.walk(n.ast):
            if isinstance(x, (ast.Call, ast.Attribute)):
                for e in ctx.cg.all_edges(ls):
                    if e.site is x and isinstance(e.target, Func) and (e.target in reach_nb or e.target is nb):
                        return True
        return False

    if lcfg.all_paths_pass(lcfg.entry, lcfg.exit, calls_into, labels_avoid=("exc",)):
        rep.ok("Wildcard.line.setter", "every normal path passes a call that reaches _ncw_bits", where=where(ls))
    else:
        rep.violation("Wildcard.line.setter", "limit check", "a normal path of the setter does not reach the limit check", where(ls))
    for q in sorted(f.qualname for f in reach_nb if f.cls is not None and f.cls.name == "Wildcard" and f is not nb and f is not ls and f.name.startswith("_") and not f.name.startswith("__")):
        g = ctx.func(q)
        gcfg = ctx.cfg(g)
        rep.instance()

        def calls_into_g(n: Node, g=g) -> bool:
            if n.ast is None:
                return False
            for x in ast.walk(n.ast):
                if isinstance(x, (ast.Call, ast.Attribute)):
                    for e in ctx.cg.all_edges(g):
                        if e.site is x and isinstance(e.target, Func) and (e.target in reach_nb or e.target is nb):
                            return True
            return False

        if gcfg.all_paths_pass(gcfg.entry, gcfg.exit, calls_into_g, labels_avoid=("exc",)):
            rep.ok(q, "every normal path reaches the limit check", where=where(g))
        else:
            rep.violation(q, "limit check", "a normal path returns without the limit check", where(g))
    # single writer of _max_ncwb, value from init_max_ncwb, accepted interval [0, 30]
    rep.instance()
    wc = ctx.cls("Wildcard")
    writers = []
    for g in wc.all_funcs():
        for n in own_nodes(g.node):
            if isinstance(n, (ast.Assign, ast.AnnAssign)):
                for t in n.targets if isinstance(n, ast.Assign) else [n.target]:
                    if isinstance(t, ast.Attribute) and src(t.value) == "self" and t.attr == "_max_ncwb":
                        writers.append((g, n))
    if len(writers) != 1 or not (isinstance(writers[0][1].value, ast.Call) and src(writers[0][1].value.func).endswith("init_max_ncwb")):
        rep.violation("Wildcard", f"_max_ncwb writers: {[g.qualname for g, _ in writers]}", "the limit must have one writer fed by init_max_ncwb (range and type validation)", "cisco_acl/wildcard.py")
    else:
        rep.ok("Wildcard._max_ncwb", f"single writer {writers[0][0].qualname} = {snippet(writers[0][1].value)}", where=where(writers[0][0]))
    im = ctx.func("wildcard.init_max_ncwb")
    rep.instance()
    acc = IntSet.all()
    typed = False
    var = None
    for n in own_nodes(im.node):
        if isinstance(n, ast.If) and any(isinstance(s, ast.Raise) for s in n.body):
            t = n.test
            if isinstance(t, ast.UnaryOp) and isinstance(t.op, ast.Not) and isinstance(t.operand, ast.Call) and src(t.operand.func) == "isinstance":
                spec = src(t.operand.args[1]) if len(t.operand.args) > 1 else ""
                if spec == "int":
                    typed = True
                    var = src(t.operand.args[0])
                continue
            try:
                names = {x.id for x in ast.walk(t) if isinstance(x, ast.Name)}
                cand = [v for v in names if v in ("max_ncwb",)] or sorted(names)
                v0 = cand[0] if cand else ""
                bad = cond_to_intset(t, lambda x, v0=v0: isinstance(x, ast.Name) and x.id == v0, lambda x: ctx.folder.fold(x, im.module))
                acc = acc.intersect(bad.complement())
            except NotInterval:
                continue
    if acc == IntSet([(0, 30)]) and typed:
        rep.ok("wildcard.init_max_ncwb", f"accepts integers {acc} after an isinstance(int) guard", where=where(im))
    else:
        rep.violation("wildcard.init_max_ncwb", f"accepted limits {acc}, int guard={typed}", "the configured limit ranges over 0..30", where(im))


def _is_len_of(x: ast.AST, names: Set[str], env) -> bool:
    x = resolve_local(x, env)
    return isinstance(x, ast.Call) and isinstance(x.func, ast.Name) and x.func.id == "len" and len(x.args) == 1 and src(x.args[0]) in names


def r05_5(ctx: Ctx, rep: Report) -> None:
    rep.rule("R05.5")
    nb = ctx.func("Wildcard._ncw_bits")
    reach_nb = ctx.cg.reaching(nb)
    n_try = 0
    for f in ctx.prog.funcs:
        for t in own_nodes(f.node):
            if not isinstance(t, ast.Try):
                continue
            # does the try body contain a call that reaches the limit check?
            hit = None
            for st in t.body:
                for x in ast.walk(st):
                    if isinstance(x, (ast.Call, ast.Attribute)):
                        for e in ctx.cg.all_edges(f):
                            if e.site is x and isinstance(e.target, Func) and not e.weak and (e.target in reach_nb):
                                hit = x
            if hit is None:
                continue
            n_try += 1
            rep.instance()
            first = None
            for h in t.handlers:
                caught = handler_classes(h)
                if not caught or any(exc_is_subclass("NetmaskValueError", c) for c in caught):
                    first = h
                    break
            if first is None:
                rep.ok(f"{f.qualname}: try around {snippet(hit, 40)}", "no handler catches NetmaskValueError", where=where(f, t))
                continue
            reraises = _always_reraises(first)
            if reraises:
                rep.ok(f"{f.qualname}: except {', '.join(handler_classes(first)) or '<bare>'}", "first matching handler re-raises the limit rejection", where=where(f, first))
            elif f.qualname in C12_GOVERNED:
                rep.ok(f"{f.qualname}: except {', '.join(handler_classes(first))}", C12_GOVERNED[f.qualname], nontrivial=False, where=where(f, first))
            else:
                rep.violation(
                    f.qualname,
                    f"except {', '.join(handler_classes(first)) or '<bare>'} around {snippet(hit, 50)}",
                    "a handler on the way from the limit check to the constructors catches the over-limit rejection without re-raising it: the entry is dropped or approximated instead of rejected",
                    where(f, first),
                    inp='Acl("ip access-list extended A\\n permit ip 10.0.0.0 0.255.255.3 any", max_ncwb=1)',
                )
    rep.floor(1, "try statements on the path from the limit check")


def _always_reraises(h: ast.ExceptHandler) -> bool:
    body = [s for s in h.body if not (isinstance(s, ast.Expr) and isinstance(s.value, ast.Constant))]
    if not body:
        return False
    last = body[-1]
    if isinstance(last, ast.Raise) and (last.exc is None or (h.name and src(last.exc) == h.name)):
        return all(not isinstance(s, (ast.Return, ast.Continue, ast.Break)) for s in body[:-1])
    return False


def run(ctx: Ctx, rep: Report, tier: str) -> None:
    n = memo_rules(ctx, rep)
    # positive fixture: the functools-cache form must be recognised on every run
    from ..fixtures import run_fixture

    run_fixture("memo", lambda c, r: memo_rules(c, r, rid="R05.1"), expect_violation="lru_cache")
    rep.rule("R05.1")
    rep.floor(1, "memoised methods (functools cache or instance memo)") if n else rep.note("R05.1 no memoised method in the package (nothing can go stale)")
    r05_2(ctx, rep)
    r05_3(ctx, rep)
    r05_4(ctx, rep)
    r05_5(ctx, rep)
