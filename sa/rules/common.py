"""Helpers shared by the per-property rule modules."""

from __future__ import annotations

import ast
from typing import Callable, Dict, Iterable, List, Optional, Set, Tuple

from ..cfg import CFG, Node
from ..core import Ctx
from ..model import AnalysisError, Class, Func, own_nodes, src
from ..pathsem import PathInfo, resolve_local


def clone(node):
    """Deep copy of an AST without the `_parent` back-links (copy.deepcopy would drag the module in)."""
    if isinstance(node, ast.AST):
        new = node.__class__()
        for fld in node._fields:
            if hasattr(node, fld):
                setattr(new, fld, clone(getattr(node, fld)))
        for a in ("lineno", "col_offset", "end_lineno", "end_col_offset"):
            if hasattr(node, a):
                setattr(new, a, getattr(node, a))
        return new
    if isinstance(node, list):
        return [clone(x) for x in node]
    return node


# ------------------------------------------------------------------ access paths
def chain(node: ast.AST) -> Optional[List[str]]:
    """['other', 'srcport', 'ports'] for other.srcport.ports ; None if not a pure attribute chain."""
    parts: List[str] = []
    while isinstance(node, ast.Attribute):
        parts.append(node.attr)
        node = node.value
    if isinstance(node, ast.Name):
        parts.append(node.id)
        return list(reversed(parts))
    return None


def chains_in(expr: ast.AST) -> List[List[str]]:
    """Maximal attribute chains rooted at a Name inside expr (method names of calls are dropped)."""
    out: List[List[str]] = []
    skip: Set[int] = set()
    callees = {id(c.func) for c in ast.walk(expr) if isinstance(c, ast.Call)}
    for n in ast.walk(expr):
        if id(n) in skip:
            continue
        if isinstance(n, ast.Attribute):
            c = chain(n)
            if c is not None:
                if id(n) in callees:
                    c = c[:-1] + [c[-1] + "()"]
                out.append(c)
                x = n.value
                while isinstance(x, ast.Attribute):
                    skip.add(id(x))
                    x = x.value
    return out


def mentions(expr: Optional[ast.AST], name: str) -> bool:
    if expr is None:
        return False
    return any(isinstance(n, ast.Name) and n.id == name for n in ast.walk(expr))


def names_in(expr: ast.AST) -> Set[str]:
    return {n.id for n in ast.walk(expr) if isinstance(n, ast.Name)}


def norm_field(cls: Optional[Class], attr: str) -> str:
    """Map a public property name to the private attribute its getter returns (srcaddr -> _srcaddr)."""
    if cls is not None and not attr.startswith("_"):
        g = cls.lookup_getter(attr)
        if g is not None:
            body = [s for s in g.node.body if not (isinstance(s, ast.Expr) and isinstance(s.value, ast.Constant))]
            if len(body) == 1 and isinstance(body[0], ast.Return) and body[0].value is not None:
                c = chain(body[0].value)
                if c and len(c) == 2 and c[0] == "self":
                    return c[1]
    return attr


def fields_read(ctx: Ctx, f: Func, roots: Dict[str, str], depth: int = 0, _seen: Optional[Set[Tuple[int, Tuple]]] = None) -> Dict[str, Set[str]]:
    """Fields (normalised first attribute) read off each root object, transitively through calls on `self`.

    roots maps a local name in `f` to a logical root ('self' / 'other').  Returns {logical root: {fields}}.
    """
    out: Dict[str, Set[str]] = {}
    _seen = _seen if _seen is not None else set()
    key = (id(f), tuple(sorted(roots.items())))
    if key in _seen or depth > 4:
        return out
    _seen.add(key)
    cls = f.cls
    for n in own_nodes(f.node):
        if isinstance(n, ast.Attribute):
            c = chain(n)
            if c and c[0] in roots and len(c) >= 2:
                par = getattr(n, "_parent", None)
                if isinstance(par, ast.Attribute):
                    continue  # not maximal
                is_call = isinstance(par, ast.Call) and par.func is n
                if is_call and len(c) == 2:
                    continue  # method call on the root itself: handled below
                out.setdefault(roots[c[0]], set()).add(norm_field(cls, c[1]))
        if isinstance(n, ast.Call) and isinstance(n.func, ast.Attribute):
            c = chain(n.func)
            if c and len(c) == 2 and c[0] in roots and cls is not None:
                m = cls.lookup_method(c[1])
                if m is not None:
                    # bind callee params to logical roots
                    sub_roots: Dict[str, str] = {}
                    params = m.params
                    if params:
                        sub_roots[params[0]] = roots[c[0]]
                    for i, a in enumerate(n.args):
                        if isinstance(a, ast.Name) and a.id in roots and i + 1 < len(params):
                            sub_roots[params[i + 1]] = roots[a.id]
                    for kw in n.keywords:
                        if kw.arg and isinstance(kw.value, ast.Name) and kw.value.id in roots:
                            sub_roots[kw.arg] = roots[kw.value.id]
                    # a thin wrapper around a parameterised helper (`return self._cover(other, attr="srcaddr")`) is read as
                    # the helper's body with the constants put in (getattr(self, "srcaddr") -> self.srcaddr)
                    from .normalise import normalised

                    sub = fields_read(ctx, normalised(ctx, m, "delegation,getattr"), sub_roots, depth + 1, _seen)
                    for k, v in sub.items():
                        out.setdefault(k, set()).update(v)
    return out


def expr_fields(ctx: Ctx, f: Func, expr: ast.AST, roots: Dict[str, str]) -> Dict[str, Set[str]]:
    """Like fields_read but for one expression of `f` (descends into helper calls on roots)."""
    out: Dict[str, Set[str]] = {}
    cls = f.cls
    callees = {id(c.func) for c in ast.walk(expr) if isinstance(c, ast.Call)}
    inner = {id(a.value) for a in ast.walk(expr) if isinstance(a, ast.Attribute)}
    for n in ast.walk(expr):
        if isinstance(n, ast.Attribute):
            c = chain(n)
            if c and c[0] in roots and len(c) >= 2 and id(n) not in inner:
                is_call = id(n) in callees
                if not (is_call and len(c) == 2):
                    out.setdefault(roots[c[0]], set()).add(norm_field(cls, c[1]))
        if isinstance(n, ast.Call) and isinstance(n.func, ast.Attribute) and cls is not None:
            c = chain(n.func)
            if c and len(c) == 2 and c[0] in roots:
                m = cls.lookup_method(c[1])
                if m is not None:
                    sub_roots: Dict[str, str] = {}
                    params = m.params
                    if params:
                        sub_roots[params[0]] = roots[c[0]]
                    for i, a in enumerate(n.args):
                        if isinstance(a, ast.Name) and a.id in roots and i + 1 < len(params):
                            sub_roots[params[i + 1]] = roots[a.id]
                    for kw in n.keywords:
                        if kw.arg and isinstance(kw.value, ast.Name) and kw.value.id in roots:
                            sub_roots[kw.arg] = roots[kw.value.id]
                    from .normalise import normalised

                    for k, v in fields_read(ctx, normalised(ctx, m, "delegation,getattr"), sub_roots).items():
                        out.setdefault(k, set()).update(v)
    return out


# ------------------------------------------------------------------ returns
def is_const(node: Optional[ast.AST], value) -> bool:
    return isinstance(node, ast.Constant) and node.value is value


def return_nodes(cfg: CFG) -> List[Node]:
    return [n for n in cfg.live if n.kind == "stmt" and isinstance(n.ast, ast.Return)]


def falsy_const_return(n: Node) -> bool:
    v = n.ast.value  # type: ignore[union-attr]
    return v is None or (isinstance(v, ast.Constant) and not v.value)


def held_label(test: ast.AST) -> str:
    """Edge label of an atomic condition on which the tested relation *holds*."""
    if isinstance(test, ast.Compare) and len(test.ops) == 1 and isinstance(test.ops[0], (ast.NotEq, ast.NotIn, ast.IsNot)):
        return "F"
    return "T"


def reachable_without_edges(cfg: CFG, src_node: Node, cut: Set[Tuple[int, str]]) -> Set[Node]:
    """Nodes reachable from src_node when edges (node id, label) in `cut` are removed (exc edges ignored)."""
    seen: Set[Node] = set()
    stack = [src_node]
    while stack:
        x = stack.pop()
        if x in seen:
            continue
        seen.add(x)
        for lab, s in x.succ:
            if lab == "exc" or (x.id, lab) in cut:
                continue
            stack.append(s)
    return seen


# ------------------------------------------------------------------ sibling normaliser (E10)
class _Renamer(ast.NodeTransformer):
    def __init__(self, mapping: Dict[str, str]):
        self.m = mapping

    def _r(self, s: str) -> str:
        for a, b in self.m.items():
            if a in s:
                return s.replace(a, b)
        return s

    def visit_Name(self, node: ast.Name):
        node.id = self._r(node.id)
        return node

    def visit_Attribute(self, node: ast.Attribute):
        self.generic_visit(node)
        node.attr = self._r(node.attr)
        return node

    def visit_arg(self, node: ast.arg):
        node.arg = self._r(node.arg)
        return node

    def visit_keyword(self, node: ast.keyword):
        self.generic_visit(node)
        if node.arg:
            node.arg = self._r(node.arg)
        return node


def _strip_doc(body: List[ast.stmt]) -> List[ast.stmt]:
    if body and isinstance(body[0], ast.Expr) and isinstance(body[0].value, ast.Constant) and isinstance(body[0].value.value, str):
        return body[1:]
    return body


def _count_name(nodes: Iterable[ast.AST], name: str) -> int:
    c = 0
    for n in nodes:
        for x in ast.walk(n):
            if isinstance(x, ast.Name) and x.id == name:
                c += 1
    return c


class _Subst(ast.NodeTransformer):
    def __init__(self, name: str, value: ast.AST):
        self.name, self.value = name, value

    def visit_Name(self, node: ast.Name):
        if node.id == self.name and isinstance(node.ctx, ast.Load):
            return clone(self.value)
        return node


def _inline_temps(body: List[ast.stmt]) -> List[ast.stmt]:
    """Inline `x = e` when x is used exactly once, in the very next statement (recursively in blocks)."""
    out: List[ast.stmt] = []
    i = 0
    body = list(body)
    while i < len(body):
        st = body[i]
        for fld in ("body", "orelse", "finalbody"):
            if hasattr(st, fld) and isinstance(getattr(st, fld), list) and getattr(st, fld) and isinstance(getattr(st, fld)[0], ast.stmt):
                setattr(st, fld, _inline_temps(getattr(st, fld)))
        tgt = None
        if isinstance(st, ast.Assign) and len(st.targets) == 1 and isinstance(st.targets[0], ast.Name):
            tgt, val = st.targets[0].id, st.value
        elif isinstance(st, ast.AnnAssign) and isinstance(st.target, ast.Name) and st.value is not None:
            tgt, val = st.target.id, st.value
        if tgt is not None and i + 1 < len(body):
            nxt = body[i + 1]
            total = _count_name(body[i + 1 :], tgt)
            # only the header expression of the next statement may use it (not a loop body)
            hdr = nxt
            if total == 1 and _count_name([hdr], tgt) == 1 and not isinstance(nxt, (ast.For, ast.While)):
                body[i + 1] = ast.fix_missing_locations(_Subst(tgt, val).visit(nxt))
                i += 1
                continue
        out.append(st)
        i += 1
    return out


def _canon_locals(fn: ast.FunctionDef) -> None:
    """Alpha-rename locals (not parameters) in order of first binding: v0, v1, ..."""
    params = {a.arg for a in fn.args.posonlyargs + fn.args.args + fn.args.kwonlyargs}
    order: List[str] = []
    for n in ast.walk(fn):
        if isinstance(n, ast.Name) and isinstance(n.ctx, ast.Store) and n.id not in params and n.id not in order:
            order.append(n.id)
    # ast.walk is breadth-first; sort by position for determinism
    pos: Dict[str, Tuple[int, int]] = {}
    for n in ast.walk(fn):
        if isinstance(n, ast.Name) and isinstance(n.ctx, ast.Store) and n.id in order:
            p = (getattr(n, "lineno", 0), getattr(n, "col_offset", 0))
            if n.id not in pos or p < pos[n.id]:
                pos[n.id] = p
    order.sort(key=lambda k: pos.get(k, (0, 0)))
    mapping = {name: f"v{i}" for i, name in enumerate(order)}
    for n in ast.walk(fn):
        if isinstance(n, ast.Name) and n.id in mapping:
            n.id = mapping[n.id]


def normalised_body(fn: ast.FunctionDef, mapping: Optional[Dict[str, str]] = None) -> str:
    """Canonical dump of a function body: docstring dropped, renaming applied, single-use temps inlined,
    annotations dropped, locals alpha-renamed."""
    f2 = clone(fn)
    f2.body = _strip_doc(f2.body)
    for n in ast.walk(f2):
        if isinstance(n, ast.AnnAssign) and n.value is not None and isinstance(n.target, ast.Name):
            pass
    # AnnAssign -> Assign
    class _Ann(ast.NodeTransformer):
        def visit_AnnAssign(self, node: ast.AnnAssign):
            if node.value is None:
                return None
            return ast.copy_location(ast.Assign(targets=[node.target], value=node.value), node)

    f2 = _Ann().visit(f2)
    if mapping:
        f2 = _Renamer(mapping).visit(f2)
    f2.body = _inline_temps(f2.body)
    _canon_locals(f2)
    ast.fix_missing_locations(f2)
    return "\n".join(ast.unparse(s) for s in f2.body)


def first_difference(a: str, b: str) -> Tuple[str, str]:
    la, lb = a.split("\n"), b.split("\n")
    for x, y in zip(la, lb):
        if x != y:
            return x.strip(), y.strip()
    if len(la) != len(lb):
        longer = la if len(la) > len(lb) else lb
        extra = longer[min(len(la), len(lb))].strip()
        return (extra, "<missing>") if len(la) > len(lb) else ("<missing>", extra)
    return "", ""


# ------------------------------------------------------------------ set inclusion idioms (E15c)
def inclusion(expr: ast.AST, env: Dict[str, ast.AST]) -> Optional[Tuple[ast.AST, ast.AST, str]]:
    """Normalise a set-inclusion test to (X, Y, kind) meaning X ⊆ Y.  kind: 'subset' | 'equal'.

    Recognised: X.intersection(Y) == X, X & Y == X, X <= Y, X.issubset(Y), Y.issuperset(X), Y >= X,
    not (X - Y), not X.difference(Y), all(e in Y for e in X).  Locals are resolved through `env`.
    """
    e = resolve_local(expr, env)
    neg = False
    while isinstance(e, ast.UnaryOp) and isinstance(e.op, ast.Not):
        neg = not neg
        e = resolve_local(e.operand, env)
    if isinstance(e, ast.Compare) and len(e.ops) == 1 and not neg:
        l = resolve_local(e.left, env)
        r = resolve_local(e.comparators[0], env)
        op = e.ops[0]
        if isinstance(op, ast.Eq):
            for a, b in ((l, r), (r, l)):
                inter = _intersection(a, env)
                if inter is not None:
                    p, q = inter
                    if _same(b, p, env):
                        return (p, q, "subset")
                    if _same(b, q, env):
                        return (q, p, "subset")
            return (l, r, "equal")
        # ordering operators mean inclusion only between sets (numbers and lists compare differently)
        if _is_set_expr(l, env) and _is_set_expr(r, env):
            if isinstance(op, ast.LtE):
                return (l, r, "subset")
            if isinstance(op, ast.GtE):
                return (r, l, "subset")
            if isinstance(op, ast.Lt):
                return (l, r, "proper")
            if isinstance(op, ast.Gt):
                return (r, l, "proper")
    if isinstance(e, ast.Call) and isinstance(e.func, ast.Attribute) and len(e.args) == 1 and not neg:
        if e.func.attr == "issubset":
            return (e.func.value, e.args[0], "subset")
        if e.func.attr == "issuperset":
            return (e.args[0], e.func.value, "subset")
    if neg:
        if isinstance(e, ast.BinOp) and isinstance(e.op, ast.Sub):
            return (e.left, e.right, "subset")
        if isinstance(e, ast.Call) and isinstance(e.func, ast.Attribute) and e.func.attr == "difference" and len(e.args) == 1:
            return (e.func.value, e.args[0], "subset")
    if isinstance(e, ast.Call) and isinstance(e.func, ast.Name) and e.func.id == "all" and len(e.args) == 1 and not neg:
        g = e.args[0]
        if isinstance(g, (ast.GeneratorExp, ast.ListComp)) and len(g.generators) == 1:
            gen = g.generators[0]
            if isinstance(g.elt, ast.Compare) and len(g.elt.ops) == 1 and isinstance(g.elt.ops[0], ast.In):
                if src(g.elt.left) == src(gen.target):
                    return (gen.iter, g.elt.comparators[0], "subset")
    return None


def _is_set_expr(e: ast.AST, env, depth: int = 0) -> bool:
    """The expression builds a set: set(...)/frozenset(...), a set display/comprehension, a set operation on sets."""
    e = resolve_local(e, env)
    while isinstance(e, ast.NamedExpr):
        e = e.value
    if isinstance(e, (ast.Set, ast.SetComp)):
        return True
    if isinstance(e, ast.Call) and isinstance(e.func, ast.Name) and e.func.id in ("set", "frozenset"):
        return True
    if isinstance(e, ast.Call) and isinstance(e.func, ast.Attribute) and e.func.attr in ("intersection", "union", "difference", "symmetric_difference", "copy") and depth < 3:
        return _is_set_expr(e.func.value, env, depth + 1)
    if isinstance(e, ast.BinOp) and isinstance(e.op, (ast.BitAnd, ast.BitOr, ast.Sub, ast.BitXor)) and depth < 3:
        return _is_set_expr(e.left, env, depth + 1) and _is_set_expr(e.right, env, depth + 1)
    return False


def _intersection(e: ast.AST, env) -> Optional[Tuple[ast.AST, ast.AST]]:
    e = resolve_local(e, env)
    if isinstance(e, ast.Call) and isinstance(e.func, ast.Attribute) and e.func.attr == "intersection" and len(e.args) == 1:
        return (e.func.value, e.args[0])
    if isinstance(e, ast.BinOp) and isinstance(e.op, ast.BitAnd):
        return (e.left, e.right)
    return None


def _same(a: ast.AST, b: ast.AST, env) -> bool:
    if src(a) == src(b):
        return True
    ra, rb = resolve_local(a, env), resolve_local(b, env)
    return ra is not None and rb is not None and src(ra) == src(rb)


def deep_resolve(expr: Optional[ast.AST], env: Dict[str, ast.AST], depth: int = 0) -> Optional[ast.AST]:
    """Substitute local names by their path bindings, recursively (bounded)."""
    if expr is None or depth > 6:
        return expr
    e = clone(expr)

    class _S(ast.NodeTransformer):
        def visit_Name(self, node: ast.Name):
            if isinstance(node.ctx, ast.Load) and node.id in env:
                r = deep_resolve(env[node.id], {k: v for k, v in env.items() if k != node.id}, depth + 1)
                if isinstance(r, ast.NamedExpr):
                    r = r.value
                return r
            return node

        def visit_NamedExpr(self, node: ast.NamedExpr):
            return self.visit(node.value)

    return _S().visit(e)


# ------------------------------------------------------------------ E8 order lattice (list-valued expressions)
def _defs_of(f: Func, name: str) -> List[Tuple[str, ast.AST, ast.AST]]:
    """Definitions of local `name`: (kind, value expr, statement). kind: assign | unpack_star | unpack | for | append."""
    out: List[Tuple[str, ast.AST, ast.AST]] = []
    for n in own_nodes(f.node):
        if isinstance(n, ast.Assign):
            for t in n.targets:
                if isinstance(t, ast.Name) and t.id == name:
                    out.append(("assign", n.value, n))
                elif isinstance(t, (ast.Tuple, ast.List)):
                    pairwise = isinstance(n.value, (ast.Tuple, ast.List)) and len(n.value.elts) == len(t.elts) and not any(isinstance(e, ast.Starred) for e in t.elts)
                    for i, e in enumerate(t.elts):
                        if isinstance(e, ast.Starred) and isinstance(e.value, ast.Name) and e.value.id == name:
                            out.append(("unpack_star", n.value, n))
                        elif isinstance(e, ast.Name) and e.id == name:
                            # `a, b = x, y` is `a = x; b = y` (the right-hand side is evaluated first)
                            out.append(("assign", n.value.elts[i], n) if pairwise else ("unpack", n.value, n))
        elif isinstance(n, ast.AnnAssign) and isinstance(n.target, ast.Name) and n.target.id == name and n.value is not None:
            out.append(("assign", n.value, n))
        elif isinstance(n, ast.NamedExpr) and isinstance(n.target, ast.Name) and n.target.id == name:
            out.append(("assign", n.value, n))
    return out


def _mutations_of(f: Func, name: str) -> List[Tuple[str, ast.Call]]:
    out = []
    for n in own_nodes(f.node):
        if isinstance(n, ast.Call) and isinstance(n.func, ast.Attribute) and isinstance(n.func.value, ast.Name) and n.func.value.id == name:
            out.append((n.func.attr, n))
    return out


def _enclosing_for(node: ast.AST, f: Func) -> Optional[ast.For]:
    p = getattr(node, "_parent", None)
    while p is not None and p is not f.node:
        if isinstance(p, ast.For):
            return p
        p = getattr(p, "_parent", None)
    return None


def order_of(ctx: Ctx, f: Func, expr: ast.AST, depth: int = 0, _seen: Optional[Set[str]] = None) -> Tuple[str, str]:  # noqa: C901
    """(state, reason) with state in: 'ordered:<root param>', 'sorted', 'reversed', 'unordered', 'unknown'."""
    _seen = _seen or set()
    if depth > 30:
        return "unknown", "too deep"
    e = expr
    if isinstance(e, (ast.List, ast.Tuple)):
        return "self", "display (fixed sequence)"
    if isinstance(e, ast.Name):
        if e.id in _seen:
            return "self", f"{e.id} (self reference)"
        defs = _defs_of(f, e.id)
        muts = _mutations_of(f, e.id)
        if not defs and e.id in f.params:
            return f"ordered:{e.id}", f"parameter {e.id}"
        states: List[Tuple[str, str]] = []
        for kind, val, st in defs:
            if kind == "assign":
                if isinstance(val, (ast.List,)) and not val.elts:
                    continue  # empty accumulator, judged by its mutations
                states.append(order_of(ctx, f, val, depth + 1, _seen | {e.id}))
            elif kind == "unpack_star":
                states.append(order_of(ctx, f, val, depth + 1, _seen | {e.id}))
            else:
                states.append(("unknown", "tuple unpack"))
        for meth, call in muts:
            if meth in ("append", "extend"):
                loop = _enclosing_for(call, f)
                # a search loop (`for types, convert in table: if ...: acc.append(convert(item)); break`) adds at most
                # one element per pass of the loop around it: the order is that of the outer loop
                while loop is not None and meth == "append":
                    blk = None
                    for b_ in ast.walk(loop):
                        for fld in ("body", "orelse"):
                            ss = getattr(b_, fld, None)
                            if isinstance(ss, list) and any(isinstance(s_, ast.Expr) and s_.value is call for s_ in ss):
                                blk = ss
                    if blk and isinstance(blk[-1], ast.Break) and _enclosing_for(blk[-1], f) is loop and _enclosing_for(loop, f) is not None:
                        loop = _enclosing_for(loop, f)
                    else:
                        break
                if loop is None:
                    states.append(("unknown", f"{meth} outside a loop"))
                    continue
                it = loop.iter
                if isinstance(it, ast.Call) and isinstance(it.func, ast.Name) and it.func.id == "enumerate" and it.args:
                    it = it.args[0]
                states.append(order_of(ctx, f, it, depth + 1, _seen | {e.id}))
            elif meth in ("insert",):
                states.append(("unknown", "insert changes positions"))
            elif meth in ("sort",):
                states.append(("sorted", ".sort()"))
            elif meth in ("reverse",):
                states.append(("reversed", ".reverse()"))
        states = [s for s in states if s[0] != "self"]
        if not states:
            if e.id in f.params:
                return f"ordered:{e.id}", f"parameter {e.id}"
            return "unknown", f"no definition of {e.id}"
        if e.id in f.params:
            states.append((f"ordered:{e.id}", f"parameter {e.id}"))
        roots = {s for s, _ in states}
        if len(roots) == 1:
            return states[0]
        bad = [s for s in states if not s[0].startswith("ordered")]
        return bad[0] if bad else ("unknown", f"{e.id} mixes {sorted(roots)}")
    if isinstance(e, ast.Attribute):
        c = chain(e)
        if c:
            return f"ordered:{'.'.join(c)}", f"attribute {'.'.join(c)}"
    if isinstance(e, ast.Subscript) and isinstance(e.slice, ast.Slice):
        if e.slice.step is not None:
            return "reversed", "extended slice"
        return order_of(ctx, f, e.value, depth + 1, _seen)
    if isinstance(e, (ast.ListComp, ast.GeneratorExp)):
        if len(e.generators) != 1:
            return "unknown", "nested comprehension"
        return order_of(ctx, f, e.generators[0].iter, depth + 1, _seen)
    if isinstance(e, (ast.SetComp, ast.Set)):
        return "unordered", "set"
    if isinstance(e, ast.BinOp) and isinstance(e.op, ast.Add):
        a, b = order_of(ctx, f, e.left, depth + 1, _seen), order_of(ctx, f, e.right, depth + 1, _seen)
        if a[0] == "self":
            return b
        if b[0] == "self":
            return a
        if a[0] == b[0] and a[0].startswith("ordered"):
            return a
        return ("unknown", "concatenation of different sources") if a[0].startswith("ordered") and b[0].startswith("ordered") else (a if not a[0].startswith("ordered") else b)
    if isinstance(e, ast.Call):
        fn = e.func
        if isinstance(fn, ast.Name):
            if fn.id == "sorted":
                return "sorted", "sorted(...)"
            if fn.id == "reversed":
                return "reversed", "reversed(...)"
            if fn.id in ("set", "frozenset"):
                return "unordered", "set(...)"
            if fn.id in ("list", "tuple", "iter", "enumerate") and e.args:
                return order_of(ctx, f, e.args[0], depth + 1, _seen)
            if fn.id == "map" and len(e.args) == 2 and not e.keywords:
                return order_of(ctx, f, e.args[1], depth + 1, _seen)  # one result per element, in the order of the elements
        if isinstance(fn, ast.Attribute) and fn.attr in ("split", "splitlines", "rsplit"):
            r = order_of(ctx, f, fn.value, depth + 1, _seen)
            return (r[0], "split of " + r[1]) if r[0].startswith("ordered") else r
        if isinstance(fn, ast.Attribute) and fn.attr in ("copy", "items", "keys", "values"):
            return order_of(ctx, f, fn.value, depth + 1, _seen)
        # package callee: judge its return expressions, then map the root parameter to the argument
        for ed in ctx.cg.all_edges(f):
            if ed.site is e and isinstance(ed.target, Func) and ed.kind == "call" and not ed.weak:
                g = ed.target
                rets = [n.value for n in own_nodes(g.node) if isinstance(n, ast.Return) and n.value is not None]
                ylds = [n for n in own_nodes(g.node) if isinstance(n, ast.Yield)]
                if not rets and ylds and not any(isinstance(n, ast.YieldFrom) for n in own_nodes(g.node)):
                    # a generator whose every yield sits in ONE loop over a source (and in no inner loop): it yields in
                    # the order of that source, at most... as many times per element as the body says
                    tops = [st_ for st_ in g.node.body if isinstance(st_, ast.For)]
                    inside = [lp_ for lp_ in tops if all(any(y is z for z in ast.walk(lp_)) for y in ylds)]
                    if len(inside) == 1 and not any(isinstance(z, (ast.For, ast.While)) and z is not inside[0] and any(y is w for w in ast.walk(z) for y in ylds) for z in ast.walk(inside[0])):
                        rets = [inside[0].iter]
                if not rets:
                    continue
                sts = [order_of(ctx, g, r, depth + 1) for r in rets]
                roots = {s for s, _ in sts}
                if len(roots) != 1:
                    bad = [s for s in sts if not s[0].startswith("ordered")]
                    return bad[0] if bad else ("unknown", f"{g.qualname} returns differently ordered values")
                st, why = sts[0]
                if st.startswith("ordered:"):
                    root = st.split(":", 1)[1].split(".")[0]
                    gp = g.params
                    if g.is_bound and gp and root == gp[0] and isinstance(fn, ast.Attribute):
                        rest = st.split(":", 1)[1].split(".", 1)[1:]
                        return f"ordered:{src(fn.value)}" + ("." + rest[0] if rest else ""), f"{g.qualname}: {why}"
                    off = 1 if g.is_bound else 0
                    arg = None
                    if root in gp:
                        i = gp.index(root) - off
                        if 0 <= i < len(e.args):
                            arg = e.args[i]
                        for k in e.keywords:
                            if k.arg == root:
                                arg = k.value
                    if arg is not None:
                        r = order_of(ctx, f, arg, depth + 1, _seen)
                        return (r[0], f"{g.qualname}({r[1]})")
                    return "unknown", f"{g.qualname} returns a value ordered by {root}"
                return st, f"{g.qualname}: {why}"
    return "unknown", f"{snippet_(e)}"


def snippet_(node: ast.AST, n: int = 80) -> str:
    s = " ".join(src(node).split())
    return s if len(s) <= n else s[: n - 3] + "..."


def loop_body_paths(cfg: CFG, loop: Node, limit: int = 2000) -> List[List[Tuple[Node, str]]]:
    """Paths from the first body node of `loop` back to the loop head or out of the function (one iteration)."""
    starts = [s for lab, s in loop.succ if lab == "body"]
    if not starts:
        return []
    out: List[List[Tuple[Node, str]]] = []
    stack: List[Tuple[Node, List[Tuple[Node, str]], frozenset]] = [(starts[0], [], frozenset())]
    while stack:
        node, path, used = stack.pop()
        if node is loop or node is cfg.exit or node is cfg.raise_exit:
            out.append(path + [(node, "")])
            if len(out) > limit:
                break
            continue
        for lab, s in node.succ:
            if lab == "exc":
                # follow into handlers: an exception edge is a real way to leave the statement
                pass
            ekey = (node.id, lab, s.id)
            if ekey in used:
                continue
            stack.append((s, path + [(node, lab)], used | {ekey}))
    return out


# ------------------------------------------------------------------ E8 linearity: placements of a loop element
def derived_names(path, var: str) -> Set[str]:
    """Locals bound on the path to a value computed from `var` (x = f(var))."""
    out: Set[str] = set()
    for node, lab in path:
        if node.kind == "stmt" and isinstance(node.ast, (ast.Assign, ast.AnnAssign)) and node.ast.value is not None:
            t = node.ast.targets[0] if isinstance(node.ast, ast.Assign) else node.ast.target
            if isinstance(t, ast.Name) and (mentions(node.ast.value, var) or names_in(node.ast.value) & out):
                out.add(t.id)
    return out


def element_placements(node_ast: ast.AST, var: str, derived: Optional[Set[str]] = None) -> List[Tuple[str, ast.AST]]:
    """Ways the loop element `var` is put into an output inside one statement.

    kinds: append (x itself), literal ([x] stored somewhere), yield, replace (extend/yield from of a
    value computed from x: x's replacement list or its flattened children).
    """
    out: List[Tuple[str, ast.AST]] = []
    for x in ast.walk(node_ast):
        if isinstance(x, ast.Call) and isinstance(x.func, ast.Attribute):
            if x.func.attr in ("append", "add") and len(x.args) == 1:
                a = x.args[0]
                if isinstance(a, ast.Name) and a.id == var:
                    out.append(("append", x))
                elif mentions(a, var):
                    out.append(("append-derived", x))
            elif x.func.attr == "extend" and len(x.args) == 1 and (mentions(x.args[0], var) or (derived and names_in(x.args[0]) & derived)):
                out.append(("replace", x))
            elif x.func.attr == "insert" and len(x.args) == 2 and mentions(x.args[1], var):
                out.append(("append", x))
        elif isinstance(x, ast.Yield) and x.value is not None and mentions(x.value, var):
            out.append(("yield", x))
        elif isinstance(x, ast.YieldFrom) and (mentions(x.value, var) or (derived and names_in(x.value) & derived)):
            out.append(("replace", x))
        elif isinstance(x, ast.Assign) and isinstance(x.targets[0], ast.Subscript) and isinstance(x.value, (ast.List, ast.Tuple)):
            if any(isinstance(e, ast.Name) and e.id == var for e in x.value.elts):
                out.append(("literal", x))
    return out


def isinstance_atom(test: ast.AST) -> Optional[Tuple[str, List[str]]]:
    """(subject name, [class names]) for `isinstance(name, C)` / `isinstance(name, (C, D))`."""
    if isinstance(test, ast.Call) and isinstance(test.func, ast.Name) and test.func.id == "isinstance" and len(test.args) == 2 and isinstance(test.args[0], ast.Name):
        spec = test.args[1]
        elts = spec.elts if isinstance(spec, ast.Tuple) else [spec]
        names = []
        for e in elts:
            if isinstance(e, ast.Name):
                names.append(e.id)
            elif isinstance(e, ast.Attribute):
                names.append(e.attr)
            else:
                return None
        return test.args[0].id, names
    if isinstance(test, ast.Compare) and len(test.ops) == 1 and isinstance(test.ops[0], ast.Eq):
        # other.__class__.__name__ == "Remark"
        l, r = test.left, test.comparators[0]
        if isinstance(r, ast.Constant) and isinstance(r.value, str) and src(l).endswith(".__class__.__name__"):
            root = src(l).split(".")[0]
            return root, [r.value]
    return None


def possible_classes(ctx: Ctx, static: List[Class], atoms: List[Tuple[ast.AST, bool]], var: str) -> Optional[Set[str]]:
    """Concrete classes the loop element can still have after the isinstance atoms of a path.

    `static` is the declared element type (list of classes); subclasses are included.  None = unknown type.
    """
    if not static:
        return None
    universe: Set[str] = set()
    for c in static:
        for s in ctx.prog.subclasses(c):
            universe.add(s.name)
    cur = set(universe)
    for test, truth in atoms:
        ia = isinstance_atom(test)
        if ia is None or ia[0] != var:
            continue
        covered: Set[str] = set()
        for cn in ia[1]:
            c = ctx.prog.classes.get(cn)
            if c is None:
                continue
            covered |= {s.name for s in ctx.prog.subclasses(c)}
        cur = cur & covered if truth else cur - covered
    return cur


# ------------------------------------------------------------------ renderers: what is joined, in which order
def _seq_elements(e: ast.AST, seqs: Dict[str, List[ast.AST]]) -> Optional[List[ast.AST]]:
    """Element expressions of a list-valued expression built from literals and tracked locals."""
    if isinstance(e, (ast.List, ast.Tuple)):
        out: List[ast.AST] = []
        for x in e.elts:
            if isinstance(x, ast.Starred):
                sub = _seq_elements(x.value, seqs)
                if sub is None:
                    return None
                out.extend(sub)
            else:
                out.append(x)
        return out
    if isinstance(e, ast.Name) and e.id in seqs:
        return list(seqs[e.id])
    if isinstance(e, ast.BinOp) and isinstance(e.op, ast.Add):
        a, b = _seq_elements(e.left, seqs), _seq_elements(e.right, seqs)
        return None if a is None or b is None else a + b
    if isinstance(e, ast.Call) and isinstance(e.func, ast.Name) and e.func.id in ("list", "tuple") and len(e.args) == 1:
        return _seq_elements(e.args[0], seqs)
    # filters that drop empty texts keep the order: [s for s in X if s], (s for s in X if s), filter(None, X), filter(bool, X)
    if isinstance(e, (ast.ListComp, ast.GeneratorExp)) and len(e.generators) == 1:
        g = e.generators[0]
        if isinstance(g.target, ast.Name) and isinstance(e.elt, ast.Name) and e.elt.id == g.target.id:
            if all(isinstance(c, ast.Name) and c.id == g.target.id for c in g.ifs):
                return _seq_elements(g.iter, seqs)
    # (E(v) for v in X) over a known sequence X: one element per member, in order
    if isinstance(e, (ast.ListComp, ast.GeneratorExp)) and len(e.generators) == 1 and not e.generators[0].ifs and isinstance(e.generators[0].target, ast.Name):
        inner = _seq_elements(e.generators[0].iter, seqs)
        if inner is not None:
            v = e.generators[0].target.id
            return [_SubstMany({v: x}).visit(clone(e.elt)) for x in inner]
    if isinstance(e, ast.Call) and isinstance(e.func, ast.Name) and e.func.id == "filter" and len(e.args) == 2:
        f0 = e.args[0]
        if (isinstance(f0, ast.Constant) and f0.value is None) or (isinstance(f0, ast.Name) and f0.id in ("bool", "len")):
            return _seq_elements(e.args[1], seqs)
    return None


def rendered_sequences(ctx: Ctx, g: Func) -> List[Tuple[List[ast.AST], "object"]]:
    """For every normal path of a renderer that returns `sep.join(<list>)`: the joined element expressions in order.

    The list may be a literal, or a local that is built up (`x = [...]`, `x.append(e)`, `x.extend([...])`,
    `x += [...]`, `x = x + [...]`, `x.insert(0, e)`) and may pass through an order-keeping empty-text filter.
    Returns [(elements, PathInfo)]; a path whose joined value is not understood contributes (None, PathInfo).
    """
    from ..pathsem import function_paths

    cfg = ctx.cfg(g)
    out = []
    for pi in function_paths(cfg, include_raise=False):
        seqs: Dict[str, List[ast.AST]] = {}
        result = None
        understood = True
        for node, _lab in pi.nodes:
            st = node.ast
            if node.kind != "stmt" or st is None:
                continue
            if isinstance(st, (ast.Assign, ast.AnnAssign)) and getattr(st, "value", None) is not None:
                tgt = st.targets[0] if isinstance(st, ast.Assign) else st.target
                if isinstance(tgt, ast.Name):
                    el = _seq_elements(st.value, seqs)
                    if el is not None:
                        seqs[tgt.id] = el
                    else:
                        seqs.pop(tgt.id, None)
            elif isinstance(st, ast.AugAssign) and isinstance(st.target, ast.Name) and isinstance(st.op, ast.Add) and st.target.id in seqs:
                el = _seq_elements(st.value, seqs)
                if el is None:
                    seqs.pop(st.target.id, None)
                else:
                    seqs[st.target.id] = seqs[st.target.id] + el
            elif isinstance(st, ast.Expr) and isinstance(st.value, ast.Call) and isinstance(st.value.func, ast.Attribute):
                c = st.value
                if isinstance(c.func.value, ast.Name) and c.func.value.id in seqs:
                    name = c.func.value.id
                    if c.func.attr == "append" and len(c.args) == 1:
                        seqs[name] = seqs[name] + [c.args[0]]
                    elif c.func.attr == "extend" and len(c.args) == 1 and _seq_elements(c.args[0], seqs) is not None:
                        seqs[name] = seqs[name] + _seq_elements(c.args[0], seqs)
                    elif c.func.attr == "insert" and len(c.args) == 2 and isinstance(c.args[0], ast.Constant) and c.args[0].value == 0:
                        seqs[name] = [c.args[1]] + seqs[name]
                    else:
                        seqs.pop(name, None)
            elif isinstance(st, ast.Return) and st.value is not None:
                v = st.value
                if isinstance(v, ast.Call) and isinstance(v.func, ast.Attribute) and v.func.attr == "join" and len(v.args) == 1:
                    result = _seq_elements(v.args[0], seqs)
                if result is None:
                    understood = False
        out.append((result if understood else None, pi))
    return out


def rendered_fields(ctx: Ctx, g: Func) -> List[List[str]]:
    """Distinct field sequences (first self-attribute of every joined element, in order) over the renderer's paths."""
    seen: List[List[str]] = []
    for elements, _pi in rendered_sequences(ctx, g):
        if elements is None:
            raise AnalysisError(f"{g.qualname}: a path returns a text whose joined elements cannot be recovered")
        fields = []
        for e in elements:
            cs = [c for c in chains_in(e) if c[0] == "self" and len(c) >= 2]
            if cs:
                fields.append(cs[0][1])
        if fields not in seen:
            seen.append(fields)
    return seen


# ------------------------------------------------------------------ small expression-level inlining
class _SubstMany(ast.NodeTransformer):
    def __init__(self, mapping: Dict[str, ast.AST]):
        self.mapping = mapping

    def visit_Name(self, node: ast.Name):
        if isinstance(node.ctx, ast.Load) and node.id in self.mapping:
            return clone(self.mapping[node.id])
        return node


def bind_call(callee: Func, call: ast.Call, bound: bool) -> Optional[Dict[str, ast.AST]]:
    """parameter name -> argument expression (defaults included); None when the call shape is not simple."""
    a = callee.node.args
    if a.vararg or a.kwarg or a.posonlyargs or any(isinstance(x, ast.Starred) for x in call.args) or any(k.arg is None for k in call.keywords):
        return None
    params = [x.arg for x in a.args]
    if bound and params and params[0] in ("self", "cls"):
        params = params[1:]
    elif bound and not any(isinstance(d, ast.Name) and d.id == "staticmethod" for d in callee.node.decorator_list):
        params = params[1:] if params else params
    if len(call.args) > len(params):
        return None
    m: Dict[str, ast.AST] = {}
    for p_, v in zip(params, call.args):
        m[p_] = v
    for k in call.keywords:
        if k.arg not in params + [x.arg for x in a.kwonlyargs] or k.arg in m:
            return None
        m[k.arg] = k.value
    defaults = dict(zip([x.arg for x in a.args][len(a.args) - len(a.defaults):], a.defaults))
    for x, d in zip(a.kwonlyargs, a.kw_defaults):
        if d is not None:
            defaults[x.arg] = d
    for p_ in params + [x.arg for x in a.kwonlyargs]:
        if p_ not in m:
            if p_ not in defaults:
                return None
            m[p_] = defaults[p_]
    return m


def callee_of_self_call(ctx: Ctx, f: Func, call: ast.Call) -> Optional[Func]:
    """Package method addressed as self.m(...) / cls.m(...) / ClassName.m(...) from inside `f`."""
    fn = call.func
    if isinstance(fn, ast.Attribute) and isinstance(fn.value, ast.Name) and f.cls is not None:
        if fn.value.id in ("self", "cls") or fn.value.id == f.cls.name:
            return f.cls.lookup_method(fn.attr)
    return None


def inline_helper_call(ctx: Ctx, f: Func, expr: Optional[ast.AST], depth: int = 0) -> Optional[ast.AST]:
    """`self.m(args)` where m is `return <expr>` only  ->  <expr> with m's parameters replaced by the arguments.

    Extract-method on one expression leaves the computed value unchanged; rules that look at how a value
    is built see through such a helper.  Anything else is returned unchanged.
    """
    if not isinstance(expr, ast.Call) or depth > 3:
        return expr
    m = callee_of_self_call(ctx, f, expr)
    if m is None and isinstance(expr.func, ast.Name):
        m = next((h_ for h_ in ctx.prog.funcs if h_.parent is f and h_.name == expr.func.id), None)
    if m is None:
        return expr
    body = _strip_doc(list(m.node.body))
    ret_value: Optional[ast.AST] = None
    if len(body) == 1 and isinstance(body[0], ast.Return) and body[0].value is not None:
        ret_value = body[0].value
    else:
        # `x = <expr>; <statements that only adjust x: x.attr = ..., under conditions>; return x` - the value returned is
        # the object <expr> builds (what is adjusted afterwards is the callee's business, judged by other rules)
        rets = [r for r in own_nodes(m.node) if isinstance(r, ast.Return)]
        env_ = single_env(m.node)
        if len(rets) == 1 and isinstance(rets[0].value, ast.Name) and rets[0].value.id in env_ and rets[0].value.id not in m.params and isinstance(env_[rets[0].value.id], ast.Call) and body and body[-1] is rets[0]:
            ret_value = env_[rets[0].value.id]
        elif len(rets) == 1 and body and body[-1] is rets[0] and rets[0].value is not None and all(isinstance(st, (ast.Assign, ast.AnnAssign)) and isinstance(st.targets[0] if isinstance(st, ast.Assign) else st.target, ast.Name) and getattr(st, "value", None) is not None for st in body[:-1]):
            # `k = {...}; return C(line, **k)`: locals bound once by plain assignments are written into the returned expression
            locs = {(st.targets[0] if isinstance(st, ast.Assign) else st.target).id: st.value for st in body[:-1]}
            if all(k in env_ for k in locs) and not (set(locs) & set(m.params)):
                ret_value = _SubstMany({k: v for k, v in locs.items()}).visit(clone(rets[0].value))
    if ret_value is None:
        return expr
    binding = bind_call(m, expr, bound=m.parent is None)
    if binding is None:
        return expr
    out = _SubstMany(binding).visit(clone(ret_value))
    return inline_helper_call(ctx, f, out, depth + 1)


def call_keywords(call: ast.Call, env: Dict[str, ast.AST]) -> Dict[str, ast.AST]:
    """Keyword arguments of a call, `**name` expanded when `name` is a local bound to dict(k=v, ...) or {"k": v, ...}."""
    kw: Dict[str, ast.AST] = {}
    for k in call.keywords:
        if k.arg is not None:
            kw[k.arg] = k.value
            continue
        v = resolve_local(k.value, env)
        if isinstance(v, ast.Call) and isinstance(v.func, ast.Name) and v.func.id == "dict" and not v.args:
            kw.update({x.arg: x.value for x in v.keywords if x.arg})
        elif isinstance(v, ast.Dict):
            for kk, vv in zip(v.keys, v.values):
                if isinstance(kk, ast.Constant) and isinstance(kk.value, str):
                    kw[kk.value] = vv
    return kw


def single_env(fn: ast.AST) -> Dict[str, ast.AST]:
    """Locals bound exactly once in the function, by a plain (annotated) assignment: name -> bound expression."""
    count: Dict[str, int] = {}
    val: Dict[str, ast.AST] = {}
    for n in ast.walk(fn):
        if isinstance(n, ast.Name) and isinstance(n.ctx, ast.Store):
            count[n.id] = count.get(n.id, 0) + 1
        if isinstance(n, ast.Assign) and len(n.targets) == 1 and isinstance(n.targets[0], ast.Name):
            val[n.targets[0].id] = n.value
        elif isinstance(n, ast.AnnAssign) and isinstance(n.target, ast.Name) and n.value is not None:
            val[n.target.id] = n.value
    return {k: v for k, v in val.items() if count.get(k) == 1}


def expanded_keywords(f: Func, call: ast.Call) -> Dict[str, ast.AST]:
    """Keyword arguments of a call with `**local` spreads written out, where the local is bound once to `dict(k=v, ...)`
    or `{"k": v, ...}` (keys a later `local[k] = v` / `local.update(k=v)` adds are included)."""
    out: Dict[str, ast.AST] = {}
    for k in call.keywords:
        if k.arg:
            out[k.arg] = k.value
        elif isinstance(k.value, ast.Name):
            nm = k.value.id
            binds = [x for x in own_nodes(f.node) if isinstance(x, (ast.Assign, ast.AnnAssign)) and x.value is not None and any(isinstance(t, ast.Name) and t.id == nm for t in (x.targets if isinstance(x, ast.Assign) else [x.target]))]
            if len(binds) != 1:
                continue
            v = binds[0].value
            if isinstance(v, ast.Call) and src(v.func) == "dict" and not v.args:
                for kk in v.keywords:
                    if kk.arg:
                        out.setdefault(kk.arg, kk.value)
            elif isinstance(v, ast.Dict):
                for kk, vv in zip(v.keys, v.values):
                    if isinstance(kk, ast.Constant) and isinstance(kk.value, str):
                        out.setdefault(kk.value, vv)
            for x in own_nodes(f.node):
                if isinstance(x, ast.Assign) and isinstance(x.targets[0], ast.Subscript) and src(x.targets[0].value) == nm and isinstance(x.targets[0].slice, ast.Constant) and isinstance(x.targets[0].slice.value, str):
                    out.setdefault(x.targets[0].slice.value, x.value)
                if isinstance(x, ast.Call) and isinstance(x.func, ast.Attribute) and x.func.attr == "update" and src(x.func.value) == nm:
                    for kk in x.keywords:
                        if kk.arg:
                            out.setdefault(kk.arg, kk.value)
    return out


def per_item_unit(ctx: Ctx, f: Func):
    """How a container setter converts one supplied item: (function, item variable, paths, anchor node, is_helper).

    Either the body of the setter's first loop (each path = one trip through the body) or, when the conversion was
    extracted, the non-raising value-returning paths of the helper applied per item:
    `[self._conv(item) for item in items]`, a local `def _conv(item)`, or `for item in items: acc.append(self._conv(item))`.
    None when neither shape is present."""
    from ..pathsem import function_paths as _fp
    from .normalise import normalised as _nrm

    f = _nrm(ctx, f, "gencalls")  # `return list(self._iter_items(items))`: the generator's loop is read in place
    cfg = ctx.cfg(f)
    loops = [n for n in cfg.live if n.kind == "for"]

    def helper_of(call: ast.AST, var: str) -> Optional[Func]:
        if not (isinstance(call, ast.Call) and len(call.args) == 1 and not call.keywords and src(call.args[0]) == var):
            return None
        m = callee_of_self_call(ctx, f, call)
        if m is None and isinstance(call.func, ast.Name):
            m = next((h_ for h_ in ctx.prog.funcs if h_.parent is f and h_.name == call.func.id), None)
        if m is None:
            return None
        n_own = len(m.params) - (1 if (m.cls is not None and m.parent is None and m.kind != "staticmethod") else 0)
        return m if n_own == 1 else None

    for n in own_nodes(f.node):
        if isinstance(n, (ast.ListComp, ast.GeneratorExp)) and len(n.generators) == 1 and isinstance(n.generators[0].target, ast.Name) and not n.generators[0].ifs:
            m = helper_of(n.elt, n.generators[0].target.id)
            if m is not None:
                hp = [pi.nodes for pi in _fp(ctx.cfg(m)) if not pi.raises and pi.ret is not None and not (isinstance(pi.ret, ast.Constant) and pi.ret.value is None)]
                return (m, m.params[-1], hp, n, True)
        # list(map(self._conv, items)) / list(map(conv, items)): the helper applied per item, in order
        if isinstance(n, ast.Call) and isinstance(n.func, ast.Name) and n.func.id == "map" and len(n.args) == 2 and not n.keywords and isinstance(n.args[0], (ast.Name, ast.Attribute)):
            fake = ast.Call(func=n.args[0], args=[ast.Name(id="item__m", ctx=ast.Load())], keywords=[])
            m = helper_of(fake, "item__m")
            if m is not None:
                hp = [pi.nodes for pi in _fp(ctx.cfg(m)) if not pi.raises and pi.ret is not None and not (isinstance(pi.ret, ast.Constant) and pi.ret.value is None)]
                return (m, m.params[-1], hp, n, True)
    if loops:
        lp = loops[0]
        var = src(lp.ast.target)
        # loop whose body only appends the helper's result
        body = [b for b in lp.ast.body if not (isinstance(b, ast.Expr) and isinstance(b.value, ast.Constant))]
        if len(body) == 1 and isinstance(body[0], ast.Expr) and isinstance(body[0].value, ast.Call) and isinstance(body[0].value.func, ast.Attribute) and body[0].value.func.attr == "append" and body[0].value.args:
            m = helper_of(body[0].value.args[0], var)
            if m is not None:
                hp = [pi.nodes for pi in _fp(ctx.cfg(m)) if not pi.raises and pi.ret is not None and not (isinstance(pi.ret, ast.Constant) and pi.ret.value is None)]
                return (m, m.params[-1], hp, lp.ast, True)
        return (f, var, [p_ for p_ in loop_body_paths(cfg, lp) if p_[-1][0] is lp], lp.ast, False)
    return None


UNKNOWN_VALUE = "<unfoldable>"


def possible_values(ctx: Ctx, f: Func, expr: ast.AST, at: Optional[ast.AST] = None, depth: int = 0) -> Set[object]:
    """The finite set of values `expr` can have when statement `at` of f runs; UNKNOWN_VALUE when not determined.

    Constants fold; a single-assignment local stands for its value; `a or b`/conditional expressions are unions; a lookup
    in a constant dict gives its values (`.get` adds None or the default).  A value excluded by a dominating test
    (`if v is None: raise`, `if not v: raise`) is removed when every path to `at` takes the other branch."""
    if depth > 6:
        return {UNKNOWN_VALUE}
    from ..fold import known as _known

    stored = {n.id for n in ast.walk(f.node) if isinstance(n, ast.Name) and isinstance(n.ctx, ast.Store)} | set(f.params)
    if not (names_in(expr) & stored):
        v = ctx.folder.fold(expr, f.module)
        if _known(v) and isinstance(v, (str, int, bool, type(None))):
            return {v}
    env = single_env(f.node)

    def table(e: ast.AST):
        t = ctx.folder.fold(e, f.module)
        if not (_known(t) and isinstance(t, dict)) and isinstance(e, ast.Name) and e.id in env:
            t = ctx.folder.fold(env[e.id], f.module)
        return t if _known(t) and isinstance(t, dict) and all(isinstance(x, (str, int, bool, type(None))) for x in t.values()) else None

    out: Set[object]
    # the variable of a loop over a constant table of rows: `for valid, aliases in _TABLE: ... return valid`
    if isinstance(expr, ast.Name) and expr.id not in env:
        # every binding of the name is the target of a loop (several loops over the same constant table are fine)
        n_stores = sum(1 for y in ast.walk(f.node) if isinstance(y, ast.Name) and y.id == expr.id and isinstance(y.ctx, ast.Store))
        loop_binds = [lp2 for lp2 in ast.walk(f.node) if isinstance(lp2, ast.For) and any(isinstance(t2, ast.Name) and t2.id == expr.id for t2 in (lp2.target.elts if isinstance(lp2.target, ast.Tuple) else [lp2.target]))]
        lenv = ctx.folder.local_env(f)
        same_table = len(loop_binds) == n_stores and len({repr(ctx.folder.fold(lp2.iter, f.module, lenv)) for lp2 in loop_binds}) == 1
        for lp in ast.walk(f.node):
            if isinstance(lp, ast.For):
                tgts = lp.target.elts if isinstance(lp.target, ast.Tuple) else [lp.target]
                for i, t in enumerate(tgts):
                    if isinstance(t, ast.Name) and t.id == expr.id and (n_stores == 1 or same_table):
                        seq = ctx.folder.fold(lp.iter, f.module, lenv)
                        if _known(seq) and isinstance(seq, (tuple, list)) and seq:
                            if isinstance(lp.target, ast.Tuple):
                                if all(isinstance(r, (tuple, list)) and len(r) == len(tgts) for r in seq):
                                    vals = {r[i] for r in seq}
                                else:
                                    return {UNKNOWN_VALUE}
                            else:
                                vals = set(seq)
                            if all(isinstance(v_, (str, int, bool, type(None))) for v_ in vals):
                                return vals
    if isinstance(expr, ast.Name) and expr.id in env:
        out = possible_values(ctx, f, env[expr.id], None, depth + 1)
        if at is not None:
            cfg = ctx.cfg(f)
            target = cfg.node_containing(at)
            if target is not None:
                for nd in cfg.live:
                    if nd.kind != "cond" or not cfg.dominates(nd, target):
                        continue
                    t = nd.ast
                    excl = None  # (predicate over values that hold on the T edge)
                    if isinstance(t, ast.Compare) and len(t.ops) == 1 and isinstance(t.left, ast.Name) and t.left.id == expr.id and is_const(t.comparators[0], None):
                        if isinstance(t.ops[0], ast.Is):
                            excl = lambda x: x is None  # noqa: E731
                        elif isinstance(t.ops[0], ast.IsNot):
                            excl = lambda x: x is not None  # noqa: E731
                    elif isinstance(t, ast.Name) and t.id == expr.id:
                        excl = lambda x: bool(x)  # noqa: E731
                    if excl is None:
                        continue
                    for lab, keep in (("T", excl), ("F", lambda x, e=excl: not e(x))):
                        succ = nd.succs(lab)
                        if succ and not any(target is s or target in cfg.reachable(s) for s in succ):
                            # the `lab` branch never reaches `at`: values satisfying it are gone
                            out = {x for x in out if x == UNKNOWN_VALUE or not keep(x)}
        return out
    if isinstance(expr, ast.BoolOp) and isinstance(expr.op, ast.Or):
        out = set()
        for i, e in enumerate(expr.values):
            vs = possible_values(ctx, f, e, None, depth + 1)
            last = i == len(expr.values) - 1
            out |= {x for x in vs if last or x == UNKNOWN_VALUE or x}
            if UNKNOWN_VALUE not in vs and all(vs) and vs:
                break
        return out
    if isinstance(expr, ast.IfExp):
        return possible_values(ctx, f, expr.body, None, depth + 1) | possible_values(ctx, f, expr.orelse, None, depth + 1)
    if isinstance(expr, ast.Subscript) and not isinstance(expr.slice, ast.Slice):
        t = table(expr.value)
        if t is not None:
            return set(t.values())
    if isinstance(expr, ast.Call) and isinstance(expr.func, ast.Attribute) and expr.func.attr == "get" and 1 <= len(expr.args) <= 2 and not expr.keywords:
        t = table(expr.func.value)
        if t is not None:
            dflt = possible_values(ctx, f, expr.args[1], None, depth + 1) if len(expr.args) == 2 else {None}
            return set(t.values()) | dflt
    return {UNKNOWN_VALUE}
