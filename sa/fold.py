"""E2 constant folder: a total evaluator over a closed expression subset of *source*.

It never imports the analysed package.  Anything outside the subset folds to UNKNOWN.
"""

from __future__ import annotations

import ast
from typing import Any, Dict, List, Optional

from .model import AnalysisError, Module, Program, Class, Func


class _Unknown:
    def __repr__(self) -> str:
        return "UNKNOWN"

    def __bool__(self) -> bool:  # never use truthiness of UNKNOWN by accident
        raise TypeError("truthiness of UNKNOWN")


UNKNOWN = _Unknown()


def known(v: Any) -> bool:
    return v is not UNKNOWN


class Unfoldable(Exception):
    pass


class Raised(Exception):
    """Partial evaluation reached a `raise` statement: the function raises for these arguments."""

    def __init__(self, exc_name: str):
        super().__init__(exc_name)
        self.exc_name = exc_name


class RaisesValue:
    """Result of eval_body when the body raises for the given settings."""

    def __init__(self, exc_name: str):
        self.exc_name = exc_name

    def __repr__(self) -> str:
        return f"<raises {self.exc_name}>"

    def __eq__(self, other) -> bool:
        return isinstance(other, RaisesValue) and other.exc_name == self.exc_name

    def __hash__(self) -> int:
        return hash(("raises", self.exc_name))


class CompiledPattern:
    """Value of `re.compile(<folded string>[, flags])` in the constant domain."""

    def __init__(self, pattern: str, flags: int = 0):
        self.pattern = pattern
        self.flags = flags

    def __repr__(self) -> str:
        return f"re.compile({self.pattern!r})"

    def __eq__(self, o) -> bool:
        return isinstance(o, CompiledPattern) and (o.pattern, o.flags) == (self.pattern, self.flags)

    def __hash__(self) -> int:
        return hash((self.pattern, self.flags))


_SAFE_CALLS = {
    "sorted": sorted,
    "set": set,
    "list": list,
    "tuple": tuple,
    "len": len,
    "str": str,
    "int": int,
    "bool": bool,
    "dict": dict,
    "range": range,
    "frozenset": frozenset,
    "min": min,
    "max": max,
    "sum": sum,
}

_BUILTIN_TYPES = {"str": str, "int": int, "list": list, "tuple": tuple, "dict": dict, "set": set, "bool": bool, "float": float, "frozenset": frozenset, "bytes": bytes}

_SAFE_METHODS = {
    (dict, "items"),
    (dict, "keys"),
    (dict, "values"),
    (dict, "copy"),
    (dict, "get"),
    (list, "copy"),
    (set, "copy"),
    (set, "union"),
    (set, "difference"),
    (set, "intersection"),
    (frozenset, "union"),
    (str, "join"),
    (str, "split"),
    (str, "strip"),
    (str, "lower"),
    (str, "upper"),
    (str, "replace"),
    (str, "format"),
    (str, "isdigit"),
    (str, "startswith"),
    (str, "endswith"),
    (str, "lstrip"),
    (str, "rstrip"),
    (str, "splitlines"),
    (str, "isalpha"),
    (str, "isalnum"),
    (str, "islower"),
    (str, "isupper"),
    (str, "isnumeric"),
    (str, "isdecimal"),
    (str, "isidentifier"),
    (str, "isspace"),
    (str, "isascii"),
    (str, "find"),
    (str, "rfind"),
    (str, "count"),
    (str, "partition"),
    (str, "rpartition"),
    (str, "rsplit"),
    (str, "title"),
    (str, "capitalize"),
    (str, "casefold"),
    (str, "removeprefix"),
    (str, "removesuffix"),
    (str, "zfill"),
}


def _is(a, b) -> bool:
    """`a is b` for folded values: decidable only against None / True / False."""
    if a is None or b is None or isinstance(a, bool) or isinstance(b, bool):
        return a is b
    raise Unfoldable("identity of values")


class Folder:
    def __init__(self, prog: Program):
        self.prog = prog
        self._envs: Dict[str, Dict[str, Any]] = {}
        self._busy: set = set()

    # ------------------------------------------------------------ module level
    def module_env(self, mod: Module) -> Dict[str, Any]:
        if mod.short in self._envs:
            return self._envs[mod.short]
        if mod.short in self._busy:
            return {}
        self._busy.add(mod.short)
        env: Dict[str, Any] = {}
        for st in mod.tree.body:
            targets = []
            value = None
            if isinstance(st, ast.Assign):
                targets, value = st.targets, st.value
            elif isinstance(st, ast.AnnAssign) and st.value is not None:
                targets, value = [st.target], st.value
            elif isinstance(st, ast.AugAssign) and isinstance(st.target, ast.Name):
                env[st.target.id] = UNKNOWN
                continue
            if value is None:
                continue
            v = self.fold(value, mod, env)
            for t in targets:
                if isinstance(t, ast.Name):
                    env[t.id] = v
                elif isinstance(t, (ast.Tuple, ast.List)):
                    names = [e.id for e in t.elts if isinstance(e, ast.Name)]
                    if known(v) and isinstance(v, (tuple, list)) and len(v) == len(t.elts) == len(names):
                        for n, x in zip(names, v):
                            env[n] = x
                    else:
                        for n in names:
                            env[n] = UNKNOWN
        self._busy.discard(mod.short)
        self._envs[mod.short] = env
        return env

    def const(self, modshort: str, name: str) -> Any:
        mod = self.prog.module(modshort)
        env = self.module_env(mod)
        if name not in env:
            raise AnalysisError(f"anchor constant vanished: {modshort}.{name}")
        v = env[name]
        if not known(v):
            raise AnalysisError(f"constant {modshort}.{name} is no longer foldable from source")
        return v

    def try_const(self, modshort: str, name: str) -> Any:
        mod = self.prog.modules.get(modshort)
        if mod is None:
            return UNKNOWN
        return self.module_env(mod).get(name, UNKNOWN)

    # ------------------------------------------------------------ expressions
    def fold(self, node: ast.AST, mod: Module, env: Optional[Dict[str, Any]] = None) -> Any:
        try:
            return self._f(node, mod, env if env is not None else {})
        except Unfoldable:
            return UNKNOWN
        except (TypeError, ValueError, KeyError, IndexError, ZeroDivisionError, AttributeError, OverflowError):
            return UNKNOWN

    def _name(self, name: str, mod: Module, env: Dict[str, Any]) -> Any:
        if name in env:
            v = env[name]
            if not known(v):
                raise Unfoldable(name)
            return v
        if name in ("True", "False", "None"):
            return {"True": True, "False": False, "None": None}[name]
        r = self.prog.resolve_name(mod, name)
        if isinstance(r, tuple) and r[0] == "const":
            menv = self.module_env(r[1])
            v = menv.get(r[2], UNKNOWN)
            if not known(v):
                raise Unfoldable(name)
            return v
        if isinstance(r, tuple) and r[0] == "ext":
            if r[1] in ("string.ascii_letters", "string.digits", "string.punctuation", "string.ascii_lowercase"):
                import string as _s

                return getattr(_s, r[1].split(".")[1])
        raise Unfoldable(name)

    def _f(self, n: ast.AST, mod: Module, env: Dict[str, Any]) -> Any:  # noqa: C901
        if isinstance(n, ast.Constant):
            return n.value
        if isinstance(n, (ast.Attribute, ast.Call, ast.Subscript)) and env:
            # symbolic environment: a rule may bind whole access paths ("self.platform", "self._is_tcp()")
            try:
                key = ast.unparse(n)
            except Exception:  # pragma: no cover
                key = None
            if key is not None and key in env:
                v = env[key]
                if not known(v):
                    raise Unfoldable(key)
                return v
        if isinstance(n, ast.Name):
            return self._name(n.id, mod, env)
        if isinstance(n, ast.Attribute):
            # module alias: h.OCTETS, string.ascii_lowercase
            if isinstance(n.value, ast.Name) and n.value.id not in env:
                r = self.prog.resolve_name(mod, n.value.id)
                if isinstance(r, Module):
                    v = self.module_env(r).get(n.attr, UNKNOWN)
                    if not known(v):
                        raise Unfoldable(n.attr)
                    return v
                if isinstance(r, tuple) and r[0] == "ext" and r[1] == "string":
                    import string as _s

                    if n.attr in ("ascii_letters", "digits", "punctuation", "ascii_lowercase", "ascii_uppercase"):
                        return getattr(_s, n.attr)
            raise Unfoldable("attr")
        if isinstance(n, ast.Tuple):
            return tuple(self._elts(n.elts, mod, env))
        if isinstance(n, ast.List):
            return list(self._elts(n.elts, mod, env))
        if isinstance(n, ast.Set):
            return set(self._elts(n.elts, mod, env))
        if isinstance(n, ast.Dict):
            d: Dict[Any, Any] = {}
            for k, v in zip(n.keys, n.values):
                if k is None:
                    inner = self._f(v, mod, env)
                    if not isinstance(inner, dict):
                        raise Unfoldable("**")
                    d.update(inner)
                else:
                    d[self._f(k, mod, env)] = self._f(v, mod, env)
            return d
        if isinstance(n, ast.JoinedStr):
            parts = []
            for v in n.values:
                if isinstance(v, ast.Constant):
                    parts.append(str(v.value))
                elif isinstance(v, ast.FormattedValue):
                    if v.format_spec is not None:
                        raise Unfoldable("format_spec")
                    x = self._f(v.value, mod, env)
                    if v.conversion == 114:
                        parts.append(repr(x))
                    elif v.conversion in (-1, 115):
                        if not isinstance(x, (str, int)):
                            raise Unfoldable("fstring value")
                        parts.append(str(x))
                    else:
                        raise Unfoldable("conversion")
            return "".join(parts)
        if isinstance(n, ast.BinOp):
            a, b = self._f(n.left, mod, env), self._f(n.right, mod, env)
            if isinstance(n.op, ast.Add):
                return a + b
            if isinstance(n.op, ast.Sub):
                return a - b
            if isinstance(n.op, ast.Mult):
                if isinstance(a, int) and isinstance(b, int) or (isinstance(a, (str, list, tuple)) and isinstance(b, int) and b < 64):
                    return a * b
                raise Unfoldable("mult")
            if isinstance(n.op, ast.Pow):
                if isinstance(a, int) and isinstance(b, int) and 0 <= b <= 128:
                    return a**b
                raise Unfoldable("pow")
            if isinstance(n.op, ast.BitOr):
                return a | b
            if isinstance(n.op, ast.BitAnd):
                return a & b
            if isinstance(n.op, ast.FloorDiv):
                return a // b
            if isinstance(n.op, ast.Mod) and isinstance(a, int):
                return a % b
            raise Unfoldable("binop")
        if isinstance(n, ast.UnaryOp):
            a = self._f(n.operand, mod, env)
            if isinstance(n.op, ast.USub):
                return -a
            if isinstance(n.op, ast.Not):
                return not a
            raise Unfoldable("unary")
        if isinstance(n, ast.Subscript):
            a = self._f(n.value, mod, env)
            if isinstance(n.slice, ast.Slice):
                lo = self._f(n.slice.lower, mod, env) if n.slice.lower else None
                hi = self._f(n.slice.upper, mod, env) if n.slice.upper else None
                st = self._f(n.slice.step, mod, env) if n.slice.step else None
                return a[lo:hi:st]
            return a[self._f(n.slice, mod, env)]
        if isinstance(n, ast.Call):
            return self._call(n, mod, env)
        if isinstance(n, (ast.ListComp, ast.SetComp, ast.DictComp, ast.GeneratorExp)):
            return self._comp(n, mod, env)
        if isinstance(n, ast.Compare) and len(n.ops) == 1:
            a, b = self._f(n.left, mod, env), self._f(n.comparators[0], mod, env)
            op = n.ops[0]
            table = {
                ast.Eq: lambda: a == b,
                ast.NotEq: lambda: a != b,
                ast.Lt: lambda: a < b,
                ast.LtE: lambda: a <= b,
                ast.Gt: lambda: a > b,
                ast.GtE: lambda: a >= b,
                ast.In: lambda: a in b,
                ast.NotIn: lambda: a not in b,
                ast.Is: lambda: _is(a, b),
                ast.IsNot: lambda: not _is(a, b),
            }
            if type(op) in table:
                return table[type(op)]()
            raise Unfoldable("compare")
        if isinstance(n, ast.IfExp):
            c = self._f(n.test, mod, env)
            return self._f(n.body if c else n.orelse, mod, env)
        if isinstance(n, ast.NamedExpr) and isinstance(n.target, ast.Name) and getattr(self, "_in_body", 0):
            # only while a body is being evaluated statement by statement (the environment is that run's own)
            v = self._f(n.value, mod, env)
            env[n.target.id] = v
            return v
        if isinstance(n, ast.BoolOp):
            # short circuit, left to right, the value of the deciding operand (as Python does)
            val = None
            for v_ in n.values:
                val = self._f(v_, mod, env)
                if isinstance(n.op, ast.And) and not val:
                    return val
                if isinstance(n.op, ast.Or) and val:
                    return val
            return val
        if isinstance(n, ast.Starred):
            raise Unfoldable("starred outside display")
        raise Unfoldable(type(n).__name__)

    def _elts(self, elts, mod, env):
        out = []
        for e in elts:
            if isinstance(e, ast.Starred):
                out.extend(list(self._f(e.value, mod, env)))
            else:
                out.append(self._f(e, mod, env))
        return out

    def _call(self, n: ast.Call, mod: Module, env: Dict[str, Any]) -> Any:
        if isinstance(n.func, ast.Name) and n.func.id == "isinstance" and n.func.id not in env and len(n.args) == 2 and not n.keywords:
            # isinstance(<folded value>, <builtin type or tuple of builtin types>)
            val = self._f(n.args[0], mod, env)
            tnodes = n.args[1].elts if isinstance(n.args[1], ast.Tuple) else [n.args[1]]
            types = []
            for t in tnodes:
                if isinstance(t, ast.Name) and t.id in _BUILTIN_TYPES and t.id not in env and self.prog.resolve_name(mod, t.id) is None:
                    types.append(_BUILTIN_TYPES[t.id])
                else:
                    raise Unfoldable("isinstance type")
            return isinstance(val, tuple(types))
        args = self._elts(n.args, mod, env)
        kwargs = {}
        for kw in n.keywords:
            if kw.arg is None:
                inner = self._f(kw.value, mod, env)
                if not isinstance(inner, dict):
                    raise Unfoldable("**")
                kwargs.update(inner)
            else:
                kwargs[kw.arg] = self._f(kw.value, mod, env)
        if isinstance(n.func, ast.Name) and n.func.id in _SAFE_CALLS and n.func.id not in env:
            # the name must not be shadowed by a package-level definition
            r = self.prog.resolve_name(mod, n.func.id)
            if r is not None:
                raise Unfoldable("shadowed builtin")
            if n.func.id == "sorted" and "key" in kwargs:
                raise Unfoldable("sorted key")
            if n.func.id == "range":
                rr = range(*args)
                if len(rr) > 70000:
                    raise Unfoldable("range too large")
                return rr
            return _SAFE_CALLS[n.func.id](*args, **kwargs)
        if isinstance(n.func, ast.Attribute) and n.func.attr == "compile" and isinstance(n.func.value, ast.Name) and n.func.value.id not in env:
            r = self.prog.resolve_name(mod, n.func.value.id)
            if isinstance(r, tuple) and r[0] == "ext" and r[1] == "re" and args and isinstance(args[0], str):
                fl = args[1] if len(args) > 1 and isinstance(args[1], int) else kwargs.get("flags", 0)
                return CompiledPattern(args[0], fl if isinstance(fl, int) else 0)
        # re.findall / search / match / fullmatch / sub / split on known strings (pure functions of their arguments)
        if isinstance(n.func, ast.Attribute) and isinstance(n.func.value, ast.Name) and n.func.value.id not in env and n.func.attr in ("findall", "search", "match", "fullmatch", "sub", "split"):
            r0 = self.prog.resolve_name(mod, n.func.value.id)
            if isinstance(r0, tuple) and r0[0] == "ext" and r0[1] == "re":
                import re as _re0

                vals = list(args) + list(kwargs.values())
                if all(isinstance(v_, (str, int)) and not isinstance(v_, bool) for v_ in vals) and len(str(kwargs.get("string", args[1] if len(args) > 1 else ""))) < 5000:
                    return getattr(_re0, n.func.attr)(*args, **kwargs)
        # itertools.chain(a, b, ...) / chain.from_iterable(xs): concatenation of known sequences (a list stands for it)
        fq = None
        if isinstance(n.func, ast.Name) and n.func.id not in env:
            r = self.prog.resolve_name(mod, n.func.id)
            if isinstance(r, tuple) and r[0] == "ext":
                fq = r[1]
        elif isinstance(n.func, ast.Attribute):
            base = n.func.value
            if isinstance(base, ast.Name) and base.id not in env:
                r = self.prog.resolve_name(mod, base.id)
                if isinstance(r, tuple) and r[0] == "ext":
                    fq = f"{r[1]}.{n.func.attr}"
            elif isinstance(base, ast.Attribute) and isinstance(base.value, ast.Name) and base.value.id not in env:
                r = self.prog.resolve_name(mod, base.value.id)
                if isinstance(r, tuple) and r[0] == "ext":
                    fq = f"{r[1]}.{base.attr}.{n.func.attr}"
        if fq in ("itertools.chain", "itertools.chain.from_iterable") and not kwargs:
            seqs = args if fq == "itertools.chain" else (list(args[0]) if len(args) == 1 else None)
            if seqs is not None and all(isinstance(x, (list, tuple, dict, set, frozenset, str, range)) for x in seqs):
                out: List[Any] = []
                for x in seqs:
                    out.extend(list(x))
                return out
        callee = self._package_function(n.func, mod, env)
        if callee is not None:
            return self._apply(callee, args, kwargs)
        if isinstance(n.func, ast.Attribute):
            recv = self._f(n.func.value, mod, env)
            import re as _re1

            if isinstance(recv, _re1.Match) and n.func.attr in ("group", "groups", "groupdict", "start", "end", "span"):
                return getattr(recv, n.func.attr)(*args, **kwargs)
            for ty, meth in _SAFE_METHODS:
                if isinstance(recv, ty) and n.func.attr == meth:
                    res = getattr(recv, meth)(*args, **kwargs)
                    if meth in ("items", "keys", "values"):
                        return list(res)
                    return res
        raise Unfoldable("call")

    # ------------------------------------------------------------ module-level helper applied to constants
    def _package_function(self, fn: ast.AST, mod: Module, env: Dict[str, Any]):
        """Module-level package function addressed by a bare name or `alias.name` (not shadowed by a local)."""
        r = None
        if isinstance(fn, ast.Name) and fn.id not in env:
            r = self.prog.resolve_name(mod, fn.id)
        elif isinstance(fn, ast.Attribute) and isinstance(fn.value, ast.Name) and fn.value.id not in env:
            m = self.prog.resolve_name(mod, fn.value.id)
            if isinstance(m, Module):
                r = m.functions.get(fn.attr)
        if isinstance(r, Func) and r.cls is None and r.parent is None and not r.decorators:
            return r
        return None

    def _apply(self, fn: Func, args: List[Any], kwargs: Dict[str, Any]) -> Any:
        """Partial evaluation of a small pure helper on known arguments: assignments to locals, in-place updates of
        local containers, `if` with a foldable test, `for` over a known sequence, one value per `return`.
        Anything else (attribute stores, calls that do not fold, while, try, raise) is Unfoldable."""
        self._depth = getattr(self, "_depth", 0) + 1
        try:
            if self._depth > 4:
                raise Unfoldable("depth")
            a = fn.node.args
            if a.posonlyargs:
                raise Unfoldable("signature")
            names = [x.arg for x in a.args]
            if len(args) > len(names) and not a.vararg:
                raise Unfoldable("arity")
            env: Dict[str, Any] = dict(zip(names, args))
            if a.vararg:
                env[a.vararg.arg] = tuple(args[len(names):])  # `*extra` receives the surplus positional arguments
            kwnames = names + [x.arg for x in a.kwonlyargs]
            extra: Dict[str, Any] = {}
            for k, v in kwargs.items():
                if k in env:
                    raise Unfoldable("keyword")
                if k not in kwnames:
                    if a.kwarg is None:
                        raise Unfoldable("keyword")
                    extra[k] = v
                    continue
                env[k] = v
            if a.kwarg is not None:
                env[a.kwarg.arg] = extra
            defaults = dict(zip(names[len(names) - len(a.defaults):], a.defaults))
            for x, d in zip(a.kwonlyargs, a.kw_defaults):
                if d is not None:
                    defaults[x.arg] = d
            for k in kwnames:
                if k not in env:
                    if k not in defaults:
                        raise Unfoldable("missing argument")
                    env[k] = self._f(defaults[k], fn.module, {})
            self._steps = 0
            done, val = self._block(fn.node.body, fn.module, env)
            return val if done else None
        finally:
            self._depth -= 1

    def eval_body(self, fn: Func, symenv: Dict[str, Any]) -> Any:
        """Value returned by the body of `fn` when the access paths in `symenv` ("self.platform", "self._is_tcp()", ...)
        have the given constant values: straight-line partial evaluation (assignments to locals, `if` on foldable tests,
        `for` over known sequences, one `return`).  UNKNOWN when something does not fold."""
        self._steps = 0
        self._depth = getattr(self, "_depth", 0) + 1
        self._in_body = getattr(self, "_in_body", 0) + 1
        try:
            done, val = self._block(fn.node.body, fn.module, dict(symenv))
            return val if done else None
        except Raised as ex:
            return RaisesValue(ex.exc_name)
        except Unfoldable:
            return UNKNOWN
        except (TypeError, ValueError, KeyError, IndexError, ZeroDivisionError, AttributeError, OverflowError):
            return UNKNOWN
        finally:
            self._depth -= 1
            self._in_body -= 1

    def eval_state(self, fn: Func, symenv: Dict[str, Any]) -> Any:
        """Like eval_body, but the answer is the environment after the body ran: locals by name, the underscore attributes
        the body stored by access path ("self._addrgroup").  RaisesValue when the body raises, UNKNOWN when it does not fold."""
        self._steps = 0
        self._depth = getattr(self, "_depth", 0) + 1
        self._in_body = getattr(self, "_in_body", 0) + 1
        env = dict(symenv)
        try:
            self._block(fn.node.body, fn.module, env)
            return env
        except Raised as ex:
            return RaisesValue(ex.exc_name)
        except Unfoldable:
            return UNKNOWN
        except (TypeError, ValueError, KeyError, IndexError, ZeroDivisionError, AttributeError, OverflowError):
            return UNKNOWN
        finally:
            self._depth -= 1
            self._in_body -= 1

    def _block(self, stmts, mod: Module, env: Dict[str, Any]):
        import copy as _copy

        for st in stmts:
            self._steps = getattr(self, "_steps", 0) + 1
            if self._steps > 20000:
                raise Unfoldable("too long")
            if isinstance(st, ast.Expr) and isinstance(st.value, ast.Constant):
                continue
            if isinstance(st, ast.Pass):
                continue
            if isinstance(st, (ast.Assign, ast.AnnAssign)):
                tgt = st.targets[0] if isinstance(st, ast.Assign) and len(st.targets) == 1 else getattr(st, "target", None)
                if st.value is None:
                    continue
                if isinstance(tgt, (ast.Tuple, ast.List)) and all(isinstance(e, ast.Name) for e in tgt.elts):
                    v = self._f(st.value, mod, env)
                    if not isinstance(v, (tuple, list)) or len(v) != len(tgt.elts):
                        raise Unfoldable("unpack")
                    for e, x in zip(tgt.elts, v):
                        env[e.id] = x
                    continue
                if isinstance(tgt, ast.Attribute) and isinstance(tgt.value, ast.Name) and tgt.value.id == "self" and tgt.attr.startswith("_") and getattr(self, "_in_body", 0):
                    # a plain (underscore) attribute of the object: kept under its access path, as the symbolic inputs are
                    env[ast.unparse(tgt)] = self._f(st.value, mod, env)
                    continue
                if not isinstance(tgt, ast.Name):
                    raise Unfoldable("store")
                v = self._f(st.value, mod, env)
                # a bare name/attribute may denote a module-level container: never let a local update reach it
                env[tgt.id] = _copy.copy(v) if isinstance(v, (list, dict, set)) and isinstance(st.value, (ast.Name, ast.Attribute)) else v
                continue
            if isinstance(st, ast.AugAssign) and isinstance(st.target, ast.Name) and isinstance(st.op, ast.Add):
                cur = self._name(st.target.id, mod, env)
                v = self._f(st.value, mod, env)
                env[st.target.id] = cur + v
                continue
            if isinstance(st, ast.Expr) and isinstance(st.value, ast.Call) and isinstance(st.value.func, ast.Attribute):
                c = st.value
                recv = c.func.value
                if isinstance(recv, ast.Name) and recv.id in env and not c.keywords:
                    obj = self._name(recv.id, mod, env)
                    argv = [self._f(x, mod, env) for x in c.args]
                    meth = c.func.attr
                    if isinstance(obj, list) and meth in ("append", "extend", "insert", "sort") or isinstance(obj, set) and meth in ("add", "update", "discard") or isinstance(obj, dict) and meth == "update":
                        getattr(obj, meth)(*argv)
                        continue
                if getattr(self, "_in_body", 0) and self._package_function(c.func, mod, env) is not None:
                    self._f(c, mod, env)  # a call for its checks only (`h.check_name(name)`): it returns or it raises
                    continue
                raise Unfoldable("statement call")
            if isinstance(st, ast.If):
                t = self._f(st.test, mod, env)
                done, val = self._block(st.body if t else st.orelse, mod, env)
                if done:
                    return True, val
                continue
            if isinstance(st, ast.For) and isinstance(st.target, (ast.Name, ast.Tuple)) and not st.orelse:
                seq = self._f(st.iter, mod, env)
                if not isinstance(seq, (list, tuple, str, range, set, dict)):
                    raise Unfoldable("iter")
                if any(isinstance(x, (ast.Break, ast.Continue)) for b in st.body for x in ast.walk(b)):
                    raise Unfoldable("break/continue")
                for item in list(seq):
                    if isinstance(st.target, ast.Name):
                        env[st.target.id] = item
                    else:
                        if not all(isinstance(e, ast.Name) for e in st.target.elts) or not isinstance(item, (tuple, list)) or len(item) != len(st.target.elts):
                            raise Unfoldable("unpack")
                        for e, v_ in zip(st.target.elts, item):
                            env[e.id] = v_
                    done, val = self._block(st.body, mod, env)
                    if done:
                        return True, val
                continue
            if isinstance(st, ast.Return):
                return True, (None if st.value is None else self._f(st.value, mod, env))
            if isinstance(st, ast.Raise) and getattr(self, "_in_body", 0):
                exc = st.exc.func if isinstance(st.exc, ast.Call) else st.exc
                raise Raised(ast.unparse(exc) if exc is not None else "")
            if isinstance(st, ast.Expr) and isinstance(st.value, ast.Call) and getattr(self, "_in_body", 0):
                # a call for its checks only (`h.check_name(name)`): it returns or it raises
                callee = self._package_function(st.value.func, mod, env)
                if callee is not None:
                    self._f(st.value, mod, env)
                    continue
            raise Unfoldable(type(st).__name__)
        return False, None

    def _comp(self, n, mod: Module, env: Dict[str, Any]) -> Any:
        out: list = []

        def bind(target, value, e):
            if isinstance(target, ast.Name):
                e[target.id] = value
            elif isinstance(target, (ast.Tuple, ast.List)):
                vals = list(value)
                if len(vals) != len(target.elts):
                    raise Unfoldable("unpack")
                for t, v in zip(target.elts, vals):
                    bind(t, v, e)
            else:
                raise Unfoldable("target")

        def rec(i, e):
            if i == len(n.generators):
                if isinstance(n, ast.DictComp):
                    out.append((self._f(n.key, mod, e), self._f(n.value, mod, e)))
                else:
                    out.append(self._f(n.elt, mod, e))
                return
            g = n.generators[i]
            it = self._f(g.iter, mod, e)
            if isinstance(it, dict):
                it = list(it)
            count = 0
            for x in it:
                count += 1
                if count > 70000:
                    raise Unfoldable("comprehension too large")
                e2 = dict(e)
                bind(g.target, x, e2)
                if all(self._f(c, mod, e2) for c in g.ifs):
                    rec(i + 1, e2)

        rec(0, dict(env))
        if isinstance(n, ast.DictComp):
            return dict(out)
        if isinstance(n, ast.SetComp):
            return set(out)
        return list(out)

    # ------------------------------------------------------------ function-local straight-line constants
    def local_env(self, fn: Func) -> Dict[str, Any]:
        """Straight-line constant propagation over the top-level statements of a function body.

        Names assigned more than once, or assigned inside a branch/loop, are UNKNOWN.
        """
        env: Dict[str, Any] = {}
        counts: Dict[str, int] = {}
        for node in ast.walk(fn.node):
            if isinstance(node, (ast.Assign, ast.AnnAssign, ast.AugAssign, ast.NamedExpr, ast.For)):
                tgts = []
                if isinstance(node, ast.Assign):
                    tgts = node.targets
                elif isinstance(node, (ast.AnnAssign, ast.AugAssign, ast.NamedExpr, ast.For)):
                    tgts = [node.target]
                for t in tgts:
                    for nm in ast.walk(t):
                        # `d[k] = v` re-binds neither d nor k (d is mutated: see below), only Store names are bound
                        if isinstance(nm, ast.Name) and isinstance(nm.ctx, (ast.Store, ast.Del)):
                            counts[nm.id] = counts.get(nm.id, 0) + 1
                        elif isinstance(nm, ast.Name) and isinstance(t, ast.Subscript) and nm is t.value:
                            counts[nm.id] = counts.get(nm.id, 0) + 1  # the container that is written into
        for p in fn.node.args.args + fn.node.args.kwonlyargs + fn.node.args.posonlyargs:
            counts[p.arg] = counts.get(p.arg, 0) + 1
            env[p.arg] = UNKNOWN
        for st in fn.node.body:
            if isinstance(st, ast.Assign) and len(st.targets) == 1:
                t = st.targets[0]
                if isinstance(t, ast.Name):
                    env[t.id] = self.fold(st.value, fn.module, env) if counts.get(t.id) == 1 else UNKNOWN
                elif isinstance(t, (ast.Tuple, ast.List)) and all(isinstance(e, ast.Name) for e in t.elts):
                    v = self.fold(st.value, fn.module, env)
                    ok = known(v) and isinstance(v, (tuple, list)) and len(v) == len(t.elts)
                    for i, e in enumerate(t.elts):
                        env[e.id] = v[i] if ok and counts.get(e.id) == 1 else UNKNOWN
            elif isinstance(st, ast.AnnAssign) and isinstance(st.target, ast.Name) and st.value is not None:
                env[st.target.id] = self.fold(st.value, fn.module, env) if counts.get(st.target.id) == 1 else UNKNOWN
        for k, c in counts.items():
            if c != 1:
                env[k] = UNKNOWN
        return env


    def fold_straight_function(self, fn: Func) -> Any:
        """Value returned by a parameterless straight-line function (assignments, in-place
        set/list updates on locals, one return).  UNKNOWN for any other shape."""
        if fn.node.args.args or fn.node.args.kwonlyargs or fn.node.args.vararg or fn.node.args.kwarg:
            return UNKNOWN
        env: Dict[str, Any] = {}
        for st in fn.node.body:
            if isinstance(st, ast.Expr) and isinstance(st.value, ast.Constant):
                continue  # docstring
            if isinstance(st, (ast.Assign, ast.AnnAssign)):
                tgt = st.targets[0] if isinstance(st, ast.Assign) and len(st.targets) == 1 else getattr(st, "target", None)
                if not isinstance(tgt, ast.Name) or st.value is None:
                    return UNKNOWN
                v = self.fold(st.value, fn.module, env)
                if not known(v):
                    return UNKNOWN
                env[tgt.id] = v
                continue
            if isinstance(st, ast.Expr) and isinstance(st.value, ast.Call) and isinstance(st.value.func, ast.Attribute):
                c = st.value
                recv = c.func.value
                if isinstance(recv, ast.Name) and recv.id in env and not c.keywords and len(c.args) == 1:
                    arg = self.fold(c.args[0], fn.module, env)
                    if not known(arg):
                        return UNKNOWN
                    obj = env[recv.id]
                    meth = c.func.attr
                    try:
                        if isinstance(obj, set) and meth in ("update", "add", "discard"):
                            getattr(obj, meth)(arg)
                            continue
                        if isinstance(obj, list) and meth in ("append", "extend"):
                            getattr(obj, meth)(arg)
                            continue
                        if isinstance(obj, dict) and meth == "update":
                            obj.update(arg)
                            continue
                    except TypeError:
                        return UNKNOWN
                return UNKNOWN
            if isinstance(st, ast.Return):
                if st.value is None:
                    return None
                return self.fold(st.value, fn.module, env)
            return UNKNOWN
        return None


def cls_or_func(x) -> bool:
    return isinstance(x, (Class, Func))
