"""Path-level helpers over the CFG: decision tables (path condition -> result) of small functions."""

from __future__ import annotations

import ast
from dataclasses import dataclass, field
from typing import Any, Dict, List, Optional, Tuple

from .cfg import CFG, Node
from .fold import UNKNOWN, Folder, known
from .model import AnalysisError, Func


@dataclass
class PathInfo:
    nodes: List[Tuple[Node, str]]
    atoms: List[Tuple[ast.AST, bool]] = field(default_factory=list)
    env: Dict[str, ast.AST] = field(default_factory=dict)  # last simple assignment of each local
    ret: Optional[ast.AST] = None  # returned expression (None = falls off / bare return)
    raises: bool = False
    end: Optional[Node] = None


def _assigned_names(fn: ast.AST) -> set:
    """Locals whose value may differ between two tests on one path: bound more than once, or bound in a loop.

    A local bound exactly once outside any loop has one value wherever it is readable, so testing it
    twice on a path must give the same answer (`is_extended = ...; if is_extended: ...; if is_extended:`).
    """
    count: Dict[str, int] = {}
    looped = set()

    def walk(n: ast.AST, in_loop: bool) -> None:
        for ch in ast.iter_child_nodes(n):
            inl = in_loop or isinstance(ch, (ast.For, ast.While, ast.ListComp, ast.SetComp, ast.DictComp, ast.GeneratorExp))
            if isinstance(ch, ast.Name) and isinstance(ch.ctx, ast.Store):
                count[ch.id] = count.get(ch.id, 0) + 1
                if inl:
                    looped.add(ch.id)
            elif isinstance(ch, ast.AugAssign) and isinstance(ch.target, ast.Name):
                count[ch.target.id] = count.get(ch.target.id, 0) + 2
            walk(ch, inl)

    if isinstance(fn, (ast.FunctionDef, ast.AsyncFunctionDef)):
        a = fn.args
        for x in a.posonlyargs + a.args + a.kwonlyargs + ([a.vararg] if a.vararg else []) + ([a.kwarg] if a.kwarg else []):
            count[x.arg] = 1  # bound on entry: any further store makes it unstable
    walk(fn, False)
    return {k for k, v in count.items() if v > 1 or k in looped}


def _contradictory(pi: "PathInfo", assigned: set) -> bool:
    """Same pure test (names/attribute chains/constants only, nothing re-assigned) taken both ways."""
    seen: Dict[str, bool] = {}
    for test, truth in pi.atoms:
        pure = all(isinstance(x, (ast.Name, ast.Attribute, ast.Constant, ast.Compare, ast.cmpop, ast.expr_context, ast.List, ast.Tuple)) for x in ast.walk(test))
        if not pure:
            continue
        names = {x.id for x in ast.walk(test) if isinstance(x, ast.Name)}
        if names & assigned:
            continue
        if any(isinstance(x, ast.Attribute) for x in ast.walk(test)):
            continue  # attributes may change through calls in between
        key = ast.unparse(test)
        if key in seen and seen[key] != truth:
            return True
        seen[key] = truth
    return False


def function_paths(cfg: CFG, include_raise: bool = True, limit: int = 5000) -> List[PathInfo]:
    dsts = [cfg.exit] + ([cfg.raise_exit] if include_raise else [])
    out: List[PathInfo] = []
    assigned = _assigned_names(cfg.fn)
    for path in cfg.paths(cfg.entry, dsts, limit=limit):
        pi = PathInfo(nodes=path)
        for node, lab in path:
            if node.kind == "cond" and lab in ("T", "F"):
                pi.atoms.append((node.ast, lab == "T"))  # type: ignore[arg-type]
                # walrus inside a test binds a local
                for x in ast.walk(node.ast):  # type: ignore[arg-type]
                    if isinstance(x, ast.NamedExpr) and isinstance(x.target, ast.Name):
                        pi.env[x.target.id] = x.value
            elif node.kind == "stmt" and node.ast is not None:
                st = node.ast
                if isinstance(st, ast.Assign) and len(st.targets) == 1 and isinstance(st.targets[0], ast.Name):
                    pi.env[st.targets[0].id] = st.value
                elif isinstance(st, ast.Assign) and len(st.targets) == 1 and isinstance(st.targets[0], ast.Tuple) and isinstance(st.value, ast.Tuple) and len(st.targets[0].elts) == len(st.value.elts):
                    # a, b = x, y
                    for a_, b_ in zip(st.targets[0].elts, st.value.elts):
                        if isinstance(a_, ast.Name):
                            pi.env[a_.id] = b_
                elif isinstance(st, ast.AnnAssign) and isinstance(st.target, ast.Name) and st.value is not None:
                    pi.env[st.target.id] = st.value
                elif isinstance(st, ast.Return):
                    pi.ret = st.value
                elif isinstance(st, ast.Raise):
                    pi.raises = True
        pi.end = path[-1][0]
        if pi.end is cfg.raise_exit:
            pi.raises = True
        if _contradictory(pi, assigned):
            continue  # infeasible: the same unmodified local tested both ways
        out.append(pi)
    return out


def resolve_local(expr: Optional[ast.AST], env: Dict[str, ast.AST], depth: int = 0) -> Optional[ast.AST]:
    """Follow `name = expr` bindings recorded on the path (one level of plain names)."""
    while isinstance(expr, ast.Name) and expr.id in env and depth < 10:
        expr = env[expr.id]
        depth += 1
    return expr


def feasible(pi: PathInfo, folder: Folder, fn: Func, symenv: Dict[str, Any]) -> Optional[bool]:
    """True/False when every atom folds under `symenv`; None when some atom is unknown (treated as feasible)."""
    unknown = False
    # a loop over a constant, non-empty sequence runs its body at least once
    entered = set()
    lenv = None
    for node, lab in pi.nodes:
        if node.kind == "for":
            if lab == "body":
                entered.add(node.id)
            elif lab == "exit" and node.id not in entered:
                if lenv is None:
                    lenv = dict(folder.local_env(fn))
                    lenv.update(symenv)
                seq = folder.fold(node.ast.iter, fn.module, lenv)
                if known(seq) and isinstance(seq, (tuple, list, str, set, dict)) and len(seq) > 0:
                    return False
    # atoms are evaluated where they stand: locals bound earlier on the path (`platform = self.platform`) are folded
    # under the symbolic environment and shadow nothing that the caller fixed in `symenv`
    env: Dict[str, Any] = dict(symenv)
    for node, lab in pi.nodes:
        st = node.ast
        if st is None:
            continue
        if node.kind == "stmt" and isinstance(st, (ast.Assign, ast.AnnAssign)) and getattr(st, "value", None) is not None:
            tgt = st.targets[0] if isinstance(st, ast.Assign) else st.target
            if isinstance(tgt, ast.Name) and tgt.id not in symenv:
                env[tgt.id] = folder.fold(st.value, fn.module, env)
            elif isinstance(tgt, ast.Tuple) and isinstance(st.value, ast.Tuple) and len(tgt.elts) == len(st.value.elts):
                vals = [folder.fold(b_, fn.module, env) for b_ in st.value.elts]
                for a_, v_ in zip(tgt.elts, vals):
                    if isinstance(a_, ast.Name) and a_.id not in symenv:
                        env[a_.id] = v_
            elif isinstance(tgt, (ast.Tuple, ast.List)):
                for a_ in tgt.elts:
                    if isinstance(a_, ast.Name) and a_.id not in symenv:
                        env[a_.id] = UNKNOWN
        elif node.kind == "for":
            for a_ in ast.walk(st.target):
                if isinstance(a_, ast.Name) and a_.id not in symenv:
                    env[a_.id] = UNKNOWN
        elif node.kind == "cond" and lab in ("T", "F"):
            for x in ast.walk(st):
                if isinstance(x, ast.NamedExpr) and isinstance(x.target, ast.Name) and x.target.id not in symenv:
                    env[x.target.id] = folder.fold(x.value, fn.module, env)
            v = folder.fold(st, fn.module, env)
            if not known(v):
                unknown = True
                continue
            if bool(v) != (lab == "T"):
                return False
    return None if unknown else True


def fold_path(folder: Folder, fn: Func, pi: PathInfo, symenv: Dict[str, Any]) -> Any:
    """Value returned along one path, folding assignments and in-place list/set updates of locals.

    Only string/list building is supported (renderer helpers); anything else gives UNKNOWN.
    """
    env: Dict[str, Any] = dict(symenv)
    for node, lab in pi.nodes:
        st = node.ast
        if node.kind != "stmt" or st is None:
            continue
        if isinstance(st, ast.Expr) and isinstance(st.value, ast.Constant):
            continue
        if isinstance(st, (ast.Assign, ast.AnnAssign)) and st.value is not None:
            tgt = st.targets[0] if isinstance(st, ast.Assign) else st.target
            if isinstance(tgt, ast.Name):
                env[tgt.id] = folder.fold(st.value, fn.module, env)
            continue
        if isinstance(st, ast.Expr) and isinstance(st.value, ast.Call) and isinstance(st.value.func, ast.Attribute):
            c = st.value
            recv = c.func.value
            if isinstance(recv, ast.Name) and recv.id in env and known(env[recv.id]) and len(c.args) == 1 and not c.keywords:
                arg = folder.fold(c.args[0], fn.module, env)
                obj = env[recv.id]
                if known(arg):
                    if isinstance(obj, list) and c.func.attr in ("append", "extend"):
                        obj = list(obj)
                        getattr(obj, c.func.attr)(arg)
                        env[recv.id] = obj
                        continue
                    if isinstance(obj, set) and c.func.attr in ("add", "update"):
                        obj = set(obj)
                        getattr(obj, c.func.attr)(arg)
                        env[recv.id] = obj
                        continue
                env[recv.id] = UNKNOWN
            continue
        if isinstance(st, ast.Return):
            if st.value is None:
                return None
            return folder.fold(st.value, fn.module, env)
    return None


def render_table(folder: Folder, cfg: CFG, fn: Func, symenvs: List[Dict[str, Any]]) -> List[Tuple[Dict[str, Any], Any]]:
    """For each symbolic environment: the folded return value of the unique feasible normal path (UNKNOWN otherwise)."""
    paths = [p for p in function_paths(cfg) if not p.raises]
    out = []
    for se in symenvs:
        feas = []
        for p in paths:
            fz = feasible(p, folder, fn, se)
            if fz is not False:
                feas.append((p, fz))
        if len(feas) == 1:
            out.append((se, fold_path(folder, fn, feas[0][0], se)))
        else:
            vals = [fold_path(folder, fn, p, se) for p, _ in feas]
            if vals and all(known(v) and v == vals[0] for v in vals):
                out.append((se, vals[0]))
            else:
                out.append((se, UNKNOWN))
    return out
