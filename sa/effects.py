"""E6 effect summaries: which attributes a function reads / writes, on which root object.

Name-level and object-insensitive (over-approximate), with one refinement: a local bound to a
*fresh* object (constructor call, `.copy()`, `Cls(**data)`) is tracked as fresh and writes to it
are not attributed to `self` or to a parameter.
"""

from __future__ import annotations

import ast
from dataclasses import dataclass, field
from typing import Dict, FrozenSet, List, Optional, Set, Tuple

from .model import Class, Func, own_nodes
from .typeinf import classes_of

MUTATORS = {
    "append", "extend", "insert", "pop", "remove", "clear", "sort", "reverse", "update", "setdefault",
    "add", "discard", "popitem", "__delitem__", "__setitem__",
}
FRESH_BUILTINS = {
    "list", "dict", "set", "tuple", "sorted", "str", "int", "bool", "len", "range", "frozenset", "repr",
    "enumerate", "zip", "reversed", "sum", "min", "max", "isinstance", "hasattr", "type", "map", "filter", "format",
}

Write = Tuple[str, str, str]  # (root, attr, kind)  kind: store | mutate | reinit


@dataclass
class Summary:
    writes: Set[Write] = field(default_factory=set)
    reads: Set[Tuple[str, str]] = field(default_factory=set)
    sites: Dict[Write, List[Tuple[str, int, str]]] = field(default_factory=dict)  # write -> [(qualname, line, text)]
    returns_fresh: bool = False

    def add_write(self, w: Write, site: Tuple[str, int, str]) -> bool:
        new = w not in self.writes
        self.writes.add(w)
        lst = self.sites.setdefault(w, [])
        if site not in lst and len(lst) < 6:
            lst.append(site)
        return new


class Effects:
    def __init__(self, ctx):
        self.ctx = ctx
        self._sum: Dict[Tuple[int, Optional[str]], Summary] = {}
        self._fresh_containers: Dict[int, Set[str]] = {}
        self._fc_memo: Dict[int, Set[str]] = {}
        self._fc_busy: Set[int] = set()
        self._in_progress: Set[Tuple[int, Optional[str]]] = set()

    # ------------------------------------------------------------------ provenance
    def _prov_env(self, f: Func) -> Dict[str, Set[str]]:
        """local name -> set of roots it may alias: 'self', parameter names, 'fresh', 'unknown'."""
        env: Dict[str, Set[str]] = {}
        a = f.node.args
        params = [x.arg for x in a.posonlyargs + a.args + a.kwonlyargs]
        for i, p in enumerate(params):
            env[p] = {"self"} if (i == 0 and f.is_bound) else {p}
        if a.kwarg:
            env[a.kwarg.arg] = {a.kwarg.arg}
        if a.vararg:
            env[a.vararg.arg] = {a.vararg.arg}
        self._fresh_containers[id(f)] = self._fresh_container_names(f)
        for _ in range(4):
            before = {k: set(v) for k, v in env.items()}
            for n in own_nodes(f.node):
                if isinstance(n, ast.Assign):
                    pv = self.prov(n.value, f, env)
                    for t in n.targets:
                        self._bind(t, pv, env)
                elif isinstance(n, ast.AnnAssign) and n.value is not None:
                    self._bind(n.target, self.prov(n.value, f, env), env)
                elif isinstance(n, ast.NamedExpr):
                    self._bind(n.target, self.prov(n.value, f, env), env)
                elif isinstance(n, ast.For):
                    self._bind(n.target, self.prov(n.iter, f, env), env)
                elif isinstance(n, ast.AugAssign) and isinstance(n.target, ast.Name):
                    env.setdefault(n.target.id, set()).update(self.prov(n.value, f, env))
            if env == before:
                break
        return env

    @staticmethod
    def _is_fresh_container_expr(e: ast.AST) -> bool:
        if isinstance(e, (ast.List, ast.Dict, ast.Set, ast.ListComp, ast.DictComp, ast.SetComp, ast.Tuple)):
            return True
        if isinstance(e, ast.Call) and isinstance(e.func, ast.Name) and e.func.id in ("list", "dict", "set", "sorted", "tuple", "reversed"):
            return True
        if isinstance(e, ast.Call) and isinstance(e.func, ast.Attribute) and e.func.attr in ("copy", "split", "splitlines", "keys", "values", "items"):
            return True
        if isinstance(e, ast.Subscript) and isinstance(e.slice, ast.Slice):
            return True
        if isinstance(e, ast.BinOp) and isinstance(e.op, ast.Add):
            return True
        return False

    def _fresh_container_names(self, f: Func) -> Set[str]:
        """Locals that are only ever bound to newly created containers (mutating them is local)."""
        if id(f) in self._fc_memo:
            return self._fc_memo[id(f)]
        if id(f) in self._fc_busy:
            return set()
        self._fc_busy.add(id(f))
        try:
            res = self._fresh_container_names_(f)
        finally:
            self._fc_busy.discard(id(f))
        self._fc_memo[id(f)] = res
        return res

    def _fresh_container_names_(self, f: Func) -> Set[str]:
        good: Dict[str, bool] = {}
        params = {x.arg for x in f.node.args.posonlyargs + f.node.args.args + f.node.args.kwonlyargs}
        for n in own_nodes(f.node):
            tg, val = None, None
            if isinstance(n, ast.Assign) and len(n.targets) == 1 and isinstance(n.targets[0], ast.Name):
                tg, val = n.targets[0].id, n.value
            elif isinstance(n, ast.AnnAssign) and isinstance(n.target, ast.Name) and n.value is not None:
                tg, val = n.target.id, n.value
            elif isinstance(n, ast.NamedExpr) and isinstance(n.target, ast.Name):
                tg, val = n.target.id, n.value
            elif isinstance(n, (ast.For, ast.comprehension)):
                for x in ast.walk(n.target):
                    if isinstance(x, ast.Name):
                        good[x.id] = False
            elif isinstance(n, ast.Assign):
                for t in n.targets:
                    for x in ast.walk(t):
                        if isinstance(x, ast.Name) and isinstance(x.ctx, ast.Store):
                            good[x.id] = False
            if tg is not None:
                ok = self._is_fresh_container_expr(val)
                if not ok and isinstance(val, ast.Call):
                    # result of a package callee that returns a container it created itself
                    for e in self.ctx.cg.all_edges(f):
                        if e.site is val and isinstance(e.target, Func) and e.kind == "call" and not e.weak:
                            ok = self._returns_fresh_container(e.target)
                good[tg] = good.get(tg, True) and ok
        return {k for k, v in good.items() if v and k not in params}

    def _returns_fresh_container(self, g: Func, _depth: int = 0) -> bool:
        if _depth > 3:
            return False
        rets = [n for n in own_nodes(g.node) if isinstance(n, ast.Return) and n.value is not None]
        if not rets:
            return False
        fresh_locals = None
        for r in rets:
            v = r.value
            if self._is_fresh_container_expr(v):
                continue
            if isinstance(v, ast.Name):
                if fresh_locals is None:
                    fresh_locals = self._fresh_container_names(g) if g is not None else set()
                if v.id in fresh_locals:
                    continue
            return False
        return True

    def _bind(self, t: ast.AST, pv: Set[str], env: Dict[str, Set[str]]) -> None:
        if isinstance(t, ast.Name):
            if t.id in env and env[t.id] == {"self"} and t.id == "self":
                return
            env.setdefault(t.id, set()).update(pv)
        elif isinstance(t, (ast.Tuple, ast.List)):
            for e in t.elts:
                self._bind(e.value if isinstance(e, ast.Starred) else e, pv, env)

    def _comp_env(self, e, f: Func, env: Dict[str, Set[str]]) -> Dict[str, Set[str]]:
        env2 = {k: set(v) for k, v in env.items()}
        for g in e.generators:
            pv = self.prov(g.iter, f, env2)
            for x in ast.walk(g.target):
                if isinstance(x, ast.Name):
                    env2[x.id] = set(pv)  # comprehension variables are scoped: replace, do not merge
        return env2

    def env_at(self, node: ast.AST, f: Func, env: Dict[str, Set[str]]) -> Dict[str, Set[str]]:
        """Provenance environment valid at `node` (adds the bindings of enclosing comprehensions)."""
        chain_ = []
        p = getattr(node, "_parent", None)
        while p is not None and p is not f.node:
            if isinstance(p, (ast.ListComp, ast.SetComp, ast.GeneratorExp, ast.DictComp)):
                chain_.append(p)
            p = getattr(p, "_parent", None)
        for comp in reversed(chain_):
            env = self._comp_env(comp, f, env)
        return env

    def prov(self, e: ast.AST, f: Func, env: Dict[str, Set[str]]) -> Set[str]:  # noqa: C901
        if isinstance(e, ast.Name):
            return set(env.get(e.id, {"fresh"}))  # module constants / classes count as fresh (immutable use)
        if isinstance(e, ast.Constant) or isinstance(e, ast.JoinedStr):
            return {"fresh"}
        if isinstance(e, ast.Attribute):
            return self.prov(e.value, f, env)
        if isinstance(e, ast.Subscript):
            return self.prov(e.value, f, env)
        if isinstance(e, ast.Starred):
            return self.prov(e.value, f, env)
        if isinstance(e, (ast.List, ast.Tuple, ast.Set)):
            out: Set[str] = set()
            for x in e.elts:
                out |= self.prov(x, f, env)
            return out or {"fresh"}
        if isinstance(e, ast.Dict):
            out = set()
            for x in e.values:
                if x is not None:
                    out |= self.prov(x, f, env)
            return out or {"fresh"}
        if isinstance(e, (ast.ListComp, ast.SetComp, ast.GeneratorExp)):
            env2 = self._comp_env(e, f, env)
            return self.prov(e.elt, f, env2)
        if isinstance(e, ast.DictComp):
            return {"fresh"}
        if isinstance(e, ast.BoolOp):
            out = set()
            for v in e.values:
                out |= self.prov(v, f, env)
            return out
        if isinstance(e, ast.IfExp):
            return self.prov(e.body, f, env) | self.prov(e.orelse, f, env)
        if isinstance(e, ast.NamedExpr):
            return self.prov(e.value, f, env)
        if isinstance(e, ast.BinOp):
            return self.prov(e.left, f, env) | self.prov(e.right, f, env)
        if isinstance(e, (ast.Compare, ast.UnaryOp)):
            return {"fresh"}
        if isinstance(e, ast.Call):
            fn = e.func
            if isinstance(fn, ast.Name):
                if fn.id in ("list", "tuple", "sorted", "reversed", "set", "enumerate", "zip", "filter", "iter") and e.args:
                    # a new container holding the *same* elements
                    out = set()
                    for x in e.args:
                        out |= self.prov(x, f, env)
                    return out
                if fn.id in FRESH_BUILTINS:
                    return {"fresh"}
                if fn.id == "getattr" and e.args:
                    return self.prov(e.args[0], f, env)
                r = self.ctx.prog.resolve_name(f.module, fn.id)
                if isinstance(r, Class):
                    return {"fresh"}
                out = set()
                for x in list(e.args) + [k.value for k in e.keywords]:
                    out |= self.prov(x, f, env)
                return out or {"fresh"}
            if isinstance(fn, ast.Attribute):
                if fn.attr in ("copy", "data", "__class__", "deepcopy"):
                    return {"fresh"}
                if fn.attr in ("join", "format", "split", "strip", "replace", "startswith", "lower", "upper", "isdigit", "keys", "count", "index", "find"):
                    return {"fresh"}
                # X.__class__(**kw)
                if isinstance(fn.value, ast.Attribute) and fn.value.attr == "__class__":
                    return {"fresh"}
                t = self.ctx.types.expr_type(fn, f)
                if any(m[0] == "type" for m in ([t] if t[0] != "union" else list(t[1]))):
                    return {"fresh"}
                out = self.prov(fn.value, f, env)
                for x in list(e.args) + [k.value for k in e.keywords]:
                    out |= self.prov(x, f, env)
                return out
        return {"unknown"}

    # ------------------------------------------------------------------ summaries
    def summary(self, f: Func, self_cls: Optional[Class] = None) -> Summary:
        key = (id(f), self_cls.name if self_cls else None)
        if key in self._sum and key not in self._in_progress:
            return self._sum[key]
        if key in self._in_progress:
            return self._sum.setdefault(key, Summary())
        self._in_progress.add(key)
        s = self._sum.setdefault(key, Summary())
        # iterate to a fixpoint because of recursion
        for _ in range(6):
            n_before = (len(s.writes), len(s.reads))
            self._scan(f, self_cls, s)
            if (len(s.writes), len(s.reads)) == n_before:
                break
        self._in_progress.discard(key)
        return s

    def _roots(self, e: ast.AST, f: Func, env) -> Set[str]:
        env = self.env_at(e, f, env)
        return {r for r in self.prov(e, f, env) if r not in ("fresh",)}

    def _scan(self, f: Func, self_cls: Optional[Class], s: Summary) -> None:  # noqa: C901
        env = self._prov_env(f)
        q = f.qualname
        edges_by_site: Dict[int, list] = {}
        for e in self.ctx.cg.all_edges(f, self_cls):
            edges_by_site.setdefault(id(e.site), []).append(e)

        def site(n: ast.AST) -> Tuple[str, int, str]:
            try:
                txt = " ".join(ast.unparse(n).split())[:100]
            except Exception:  # pragma: no cover
                txt = type(n).__name__
            return (q, getattr(n, "lineno", 0), txt)

        fresh_c = self._fresh_containers.get(id(f), set())

        def record_store(target: ast.AST, node: ast.AST) -> None:
            if isinstance(target, ast.Attribute):
                if any(isinstance(e.target, Func) and e.kind == "setter" and not e.weak for e in edges_by_site.get(id(target), [])):
                    return  # a resolved property store: the setter's own writes are imported below
                for r in self._roots(target.value, f, env):
                    s.add_write((r, target.attr, "store"), site(node))
            elif isinstance(target, ast.Subscript):
                base = target.value
                if isinstance(base, ast.Name) and base.id in fresh_c:
                    return
                attr = base.attr if isinstance(base, ast.Attribute) else (base.id if isinstance(base, ast.Name) else "?")
                for r in self._roots(base, f, env):
                    if isinstance(base, ast.Name) and r == base.id and r not in ("self",):
                        s.add_write((r, "[]", "mutate"), site(node))
                    else:
                        s.add_write((r, attr, "mutate"), site(node))
            elif isinstance(target, (ast.Tuple, ast.List)):
                for e in target.elts:
                    record_store(e, node)

        for n in own_nodes(f.node):
            if isinstance(n, ast.Assign):
                for t in n.targets:
                    record_store(t, n)
            elif isinstance(n, ast.AugAssign):
                record_store(n.target, n)
            elif isinstance(n, ast.AnnAssign) and n.value is not None:
                record_store(n.target, n)
            elif isinstance(n, ast.Delete):
                for t in n.targets:
                    record_store(t, n)
            elif isinstance(n, ast.Attribute) and isinstance(n.ctx, ast.Load):
                for r in self._roots(n.value, f, env):
                    s.reads.add((r, n.attr))
            # property setters / getters: effects of the accessor on its receiver
            if isinstance(n, ast.Attribute):
                for e in edges_by_site.get(id(n), []):
                    if isinstance(e.target, Func) and e.kind in ("setter", "getter") and not e.weak:
                        self._import(s, e.target, e.recv_cls if e.kind else None, {e.target.params[0] if e.target.params else "self": self._roots(n.value, f, env)}, site(n), f, n, env, e)
                    # a bound method taken as a value and called through a local / a table: its effects on the receiver
                    if isinstance(e.target, Func) and e.kind == "call" and not e.weak and e.target.is_bound and e.target.params:
                        self._import(s, e.target, e.recv_cls, {e.target.params[0]: self._roots(n.value, f, env)}, site(n), f, n, env, e)
            if isinstance(n, ast.Call):
                fn = n.func
                # in-place container mutation
                if isinstance(fn, ast.Attribute) and fn.attr in MUTATORS:
                    recv_t = self.ctx.types.expr_type(fn.value, f, self_cls)
                    is_pkg_obj = bool(classes_of(recv_t))
                    if not is_pkg_obj and not (isinstance(fn.value, ast.Name) and fn.value.id in fresh_c):
                        base = fn.value
                        attr = base.attr if isinstance(base, ast.Attribute) else (base.id if isinstance(base, ast.Name) else "?")
                        for r in self._roots(base, f, env):
                            if isinstance(base, ast.Name) and r == base.id and r != "self":
                                s.add_write((r, "[]", "mutate"), site(n))
                            else:
                                s.add_write((r, attr, "mutate"), site(n))
                if isinstance(fn, ast.Name) and fn.id == "setattr" and len(n.args) >= 2:
                    nm = n.args[1]
                    attr = nm.value if isinstance(nm, ast.Constant) else "*"
                    if isinstance(nm, ast.Name):
                        attr = "*"
                    if isinstance(nm, ast.JoinedStr):
                        attr = "".join(str(v.value) if isinstance(v, ast.Constant) else "*" for v in nm.values)
                    for r in self._roots(n.args[0], f, env):
                        s.add_write((r, str(attr), "store"), site(n))
                if isinstance(fn, ast.Attribute) and fn.attr == "update" and isinstance(fn.value, ast.Attribute) and fn.value.attr == "__dict__":
                    for r in self._roots(fn.value.value, f, env):
                        s.add_write((r, "*", "reinit"), site(n))
                if isinstance(fn, ast.Attribute) and fn.attr == "__init__":
                    for r in self._roots(fn.value, f, env):
                        s.add_write((r, "*", "reinit"), site(n))
                    if isinstance(fn.value, ast.Name) and n.args:
                        # Base.__init__(self, **kw)
                        r0 = self.ctx.prog.resolve_name(f.module, fn.value.id)
                        if isinstance(r0, Class):
                            for r in self._roots(n.args[0], f, env):
                                s.add_write((r, "*", "reinit"), site(n))
                # package callees
                for e in edges_by_site.get(id(n), []):
                    if not isinstance(e.target, Func) or e.kind not in ("call", "construct"):
                        continue
                    g: Func = e.target
                    binding: Dict[str, Set[str]] = {}
                    gparams = g.params
                    off = 0
                    if e.kind == "construct":
                        off = 1  # self of __init__ is the fresh object
                    elif g.is_bound or g.kind == "classmethod":
                        if isinstance(fn, ast.Attribute):
                            # Cls.method(self, ...) explicit form
                            rt = self.ctx.types.expr_type(fn.value, f, self_cls)
                            if rt[0] == "type" and g.is_bound:
                                off = 0
                            else:
                                if gparams:
                                    binding[gparams[0]] = self._roots(fn.value, f, env)
                                off = 1
                    for i, a in enumerate(n.args):
                        if isinstance(a, ast.Starred):
                            continue
                        if i + off < len(gparams):
                            binding[gparams[i + off]] = self._roots(a, f, env)
                    for kw in n.keywords:
                        if kw.arg:
                            binding[kw.arg] = self._roots(kw.value, f, env)
                        elif g.node.args.kwarg:
                            binding[g.node.args.kwarg.arg] = self._roots(kw.value, f, env)
                    if e.weak:
                        continue
                    self._import(s, g, e.recv_cls, binding, site(n), f, n, env, e)

    def _import(self, s: Summary, g: Func, recv_cls, binding: Dict[str, Set[str]], st, f: Func, n: ast.AST, env, e) -> None:
        if g is f:
            sub = s
        else:
            exact = None
            sub = self.summary(g, exact)
        for (root, attr, kind) in list(sub.writes):
            callee_root = "self" if (g.is_bound and g.params and root == "self") else root
            key = g.params[0] if (callee_root == "self" and g.params) else callee_root
            for r in binding.get(key, set()):
                w = (r, attr, kind)
                sites = sub.sites.get((root, attr, kind), [])
                s.add_write(w, sites[0] if sites else st)
        for (root, attr) in list(sub.reads):
            key = g.params[0] if (root == "self" and g.params) else root
            for r in binding.get(key, set()):
                s.reads.add((r, attr))

    # ------------------------------------------------------------------ convenience
    def self_writes(self, f: Func, self_cls: Optional[Class] = None) -> Set[Tuple[str, str]]:
        return {(a, k) for (r, a, k) in self.summary(f, self_cls).writes if r == "self"}

    def self_reads(self, f: Func, self_cls: Optional[Class] = None) -> Set[str]:
        return {a for (r, a) in self.summary(f, self_cls).reads if r == "self"}
