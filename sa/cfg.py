"""E5 per-function control-flow graph over the statement kinds the repository uses.

Nodes are simple statements, atomic conditions (short-circuit `and`/`or`/`not` are split),
`for` headers and `except` entries.  Provides dominators, post-dominators, control dependence,
must-pass-through, reachability and bounded path enumeration.
"""

from __future__ import annotations

import ast
from typing import Callable, Dict, Iterable, Iterator, List, Optional, Sequence, Set, Tuple

from .model import AnalysisError

EXC_PARENTS = {
    "NetmaskValueError": "ValueError",
    "AddressValueError": "ValueError",
    "UnicodeError": "ValueError",
    "ValueError": "Exception",
    "TypeError": "Exception",
    "KeyError": "LookupError",
    "IndexError": "LookupError",
    "LookupError": "Exception",
    "AttributeError": "Exception",
    "RecursionError": "RuntimeError",
    "RuntimeError": "Exception",
    "NotImplementedError": "RuntimeError",
    "StopIteration": "Exception",
    "ZeroDivisionError": "ArithmeticError",
    "OverflowError": "ArithmeticError",
    "ArithmeticError": "Exception",
    "AssertionError": "Exception",
    "OSError": "Exception",
    "Exception": "BaseException",
    "BaseException": None,
}


def exc_is_subclass(name: str, parent: str) -> bool:
    n: Optional[str] = name
    seen = 0
    while n is not None and seen < 20:
        if n == parent:
            return True
        n = EXC_PARENTS.get(n, "Exception" if n not in ("BaseException",) else None)
        if n == "Exception" and parent == "Exception":
            return True
        seen += 1
    return False


class Node:
    __slots__ = ("id", "kind", "ast", "succ", "pred", "extra")

    def __init__(self, id_: int, kind: str, node: Optional[ast.AST] = None):
        self.id = id_
        self.kind = kind  # entry exit raise stmt cond for except
        self.ast = node
        self.succ: List[Tuple[str, "Node"]] = []
        self.pred: List[Tuple[str, "Node"]] = []
        self.extra: dict = {}

    def __repr__(self) -> str:
        t = ""
        if self.ast is not None:
            try:
                t = ast.unparse(self.ast).split("\n")[0][:60]
            except Exception:
                t = type(self.ast).__name__
        return f"<{self.id}:{self.kind} {t}>"

    @property
    def lineno(self) -> int:
        return getattr(self.ast, "lineno", 0)

    def succs(self, *labels: str) -> List["Node"]:
        return [n for lab, n in self.succ if not labels or lab in labels]


class _Frame:
    """Loop or try context during construction."""

    def __init__(self, kind: str, **kw):
        self.kind = kind
        self.__dict__.update(kw)


class CFG:
    def __init__(self, fn: ast.FunctionDef, const_params: Optional[Dict[str, object]] = None):
        self.fn = fn
        self.nodes: List[Node] = []
        self.entry = self._new("entry")
        self.exit = self._new("exit")
        self.raise_exit = self._new("raise")
        self.const_params = const_params or {}
        self._frames: List[_Frame] = []
        self._node_of_stmt: Dict[int, Node] = {}
        ends = self._block(fn.body, [(self.entry, "next")])
        for n, lab in ends:
            self._edge(n, self.exit, lab)
        self._prune_unreachable()
        self._dom: Optional[Dict[Node, Set[Node]]] = None
        self._pdom: Optional[Dict[Node, Set[Node]]] = None

    # ------------------------------------------------------------------ construction
    def _new(self, kind: str, node: Optional[ast.AST] = None) -> Node:
        n = Node(len(self.nodes), kind, node)
        self.nodes.append(n)
        return n

    def _edge(self, a: Node, b: Node, label: str) -> None:
        if (label, b) not in a.succ:
            a.succ.append((label, b))
            b.pred.append((label, a))

    def _connect(self, ins: Sequence[Tuple[Node, str]], b: Node) -> None:
        for n, lab in ins:
            self._edge(n, b, lab)

    def _exc_edges(self, n: Node) -> None:
        """Implicit exceptions: a node inside a `try` body may jump to each handler of the innermost try."""
        for fr in reversed(self._frames):
            if fr.kind == "try":
                for h in fr.handlers:
                    self._edge(n, h, "exc")
                return

    def _block(self, stmts: Sequence[ast.stmt], ins: List[Tuple[Node, str]]) -> List[Tuple[Node, str]]:
        cur = ins
        for st in stmts:
            cur = self._stmt(st, cur)
        return cur

    def _cond(self, test: ast.expr, ins: List[Tuple[Node, str]]) -> Tuple[List[Tuple[Node, str]], List[Tuple[Node, str]]]:
        """Return (true_outs, false_outs) for `test`, splitting and/or/not."""
        if isinstance(test, ast.BoolOp):
            if isinstance(test.op, ast.And):
                falses: List[Tuple[Node, str]] = []
                cur = ins
                for v in test.values:
                    t, f = self._cond(v, cur)
                    falses.extend(f)
                    cur = t
                return cur, falses
            trues: List[Tuple[Node, str]] = []
            cur = ins
            for v in test.values:
                t, f = self._cond(v, cur)
                trues.extend(t)
                cur = f
            return trues, cur
        if isinstance(test, ast.UnaryOp) and isinstance(test.op, ast.Not):
            t, f = self._cond(test.operand, ins)
            return f, t
        # constant specialisation of a boolean parameter
        if isinstance(test, ast.Name) and test.id in self.const_params:
            n = self._new("cond", test)
            self._connect(ins, n)
            self._exc_edges(n)
            if self.const_params[test.id]:
                return [(n, "T")], []
            return [], [(n, "F")]
        n = self._new("cond", test)
        self._connect(ins, n)
        self._exc_edges(n)
        return [(n, "T")], [(n, "F")]

    def _stmt(self, st: ast.stmt, ins: List[Tuple[Node, str]]) -> List[Tuple[Node, str]]:  # noqa: C901
        if not ins:
            return []  # unreachable code
        if isinstance(st, ast.If):
            t, f = self._cond(st.test, ins)
            outs = self._block(st.body, t)
            outs = outs + self._block(st.orelse, f) if st.orelse else outs + f
            return outs
        if isinstance(st, (ast.For, ast.AsyncFor)):
            head = self._new("for", st)
            self._node_of_stmt[id(st)] = head
            self._connect(ins, head)
            self._exc_edges(head)
            fr = _Frame("loop", head=head, breaks=[])
            self._frames.append(fr)
            body_out = self._block(st.body, [(head, "body")])
            self._frames.pop()
            for n, lab in body_out:
                self._edge(n, head, lab)
            outs = self._block(st.orelse, [(head, "exit")]) if st.orelse else [(head, "exit")]
            return outs + fr.breaks
        if isinstance(st, ast.While):
            # loop head is the condition itself
            anchor = self._new("stmt", ast.Pass())
            anchor.extra["while"] = st
            self._node_of_stmt[id(st)] = anchor
            self._connect(ins, anchor)
            fr = _Frame("loop", head=anchor, breaks=[])
            self._frames.append(fr)
            if isinstance(st.test, ast.Constant) and st.test.value is True:
                t, f = [(anchor, "next")], []
            else:
                t, f = self._cond(st.test, [(anchor, "next")])
            body_out = self._block(st.body, t)
            self._frames.pop()
            for n, lab in body_out:
                self._edge(n, anchor, lab)
            outs = self._block(st.orelse, f) if st.orelse else f
            return outs + fr.breaks
        if isinstance(st, ast.Try):
            handlers = [self._new("except", h) for h in st.handlers]
            fr = _Frame("try", handlers=handlers, node=st)
            self._frames.append(fr)
            body_out = self._block(st.body, ins)
            self._frames.pop()
            if st.orelse:
                body_out = self._block(st.orelse, body_out)
            outs = list(body_out)
            for hn, h in zip(handlers, st.handlers):
                self._frames.append(_Frame("handler", node=h))
                outs += self._block(h.body, [(hn, "next")])
                self._frames.pop()
            if st.finalbody:
                outs = self._block(st.finalbody, outs)
            return outs
        if isinstance(st, (ast.With, ast.AsyncWith)):
            n = self._new("stmt", st)
            self._connect(ins, n)
            self._exc_edges(n)
            return self._block(st.body, [(n, "next")])
        if isinstance(st, (ast.FunctionDef, ast.AsyncFunctionDef, ast.ClassDef)):
            n = self._new("stmt", st)
            n.extra["def"] = True
            self._connect(ins, n)
            return [(n, "next")]
        n = self._new("stmt", st)
        self._node_of_stmt[id(st)] = n
        self._connect(ins, n)
        if isinstance(st, ast.Return):
            self._exc_edges(n)
            self._edge(n, self.exit, "return")
            return []
        if isinstance(st, ast.Raise):
            self._raise(n, st)
            return []
        if isinstance(st, ast.Continue):
            for fr in reversed(self._frames):
                if fr.kind == "loop":
                    self._edge(n, fr.head, "continue")
                    break
            return []
        if isinstance(st, ast.Break):
            for fr in reversed(self._frames):
                if fr.kind == "loop":
                    fr.breaks.append((n, "break"))
                    break
            return []
        self._exc_edges(n)
        return [(n, "next")]

    def _raise(self, n: Node, st: ast.Raise) -> None:
        name = raised_class(st)
        frames = list(reversed(self._frames))
        if st.exc is None:
            # bare re-raise inside a handler: propagates out of the try that owns the handler
            name = None
        for fr in frames:
            if fr.kind != "try":
                continue
            for hn in fr.handlers:
                caught = handler_classes(hn.ast)  # type: ignore[arg-type]
                if name is None:
                    # unknown class: may be caught by any handler (over-approximation) and may escape
                    self._edge(n, hn, "exc")
                    continue
                if any(exc_is_subclass(name, c) for c in caught) or not caught:
                    self._edge(n, hn, "exc")
                    return
        self._edge(n, self.raise_exit, "raise")

    def _prune_unreachable(self) -> None:
        seen: Set[Node] = set()
        stack = [self.entry]
        while stack:
            x = stack.pop()
            if x in seen:
                continue
            seen.add(x)
            stack.extend(s for _, s in x.succ)
        seen.add(self.exit)
        seen.add(self.raise_exit)
        for n in self.nodes:
            if n not in seen:
                for lab, s in n.succ:
                    s.pred = [(l2, p) for l2, p in s.pred if p is not n]
                n.succ = []
        self.live = [n for n in self.nodes if n in seen]

    # ------------------------------------------------------------------ queries
    def node_of(self, st: ast.AST) -> Optional[Node]:
        for n in self.live:
            if n.ast is st:
                return n
        return self._node_of_stmt.get(id(st))

    def nodes_where(self, pred: Callable[[Node], bool]) -> List[Node]:
        return [n for n in self.live if pred(n)]

    def node_containing(self, sub: ast.AST) -> Optional[Node]:
        """The CFG node whose ast contains `sub` (innermost)."""
        best: Optional[Node] = None
        for n in self.live:
            if n.ast is None:
                continue
            if n.kind == "for":
                roots: List[ast.AST] = [n.ast.target, n.ast.iter]  # type: ignore[attr-defined]
            elif n.kind == "except":
                roots = [n.ast.type] if n.ast.type is not None else []  # type: ignore[attr-defined]
            elif n.extra.get("def"):
                continue
            else:
                roots = [n.ast]
            for r in roots:
                for x in ast.walk(r):
                    if x is sub:
                        best = n
        return best

    def reachable(self, src: Node, avoid: Optional[Callable[[Node], bool]] = None, labels_avoid: Iterable[str] = ()) -> Set[Node]:
        seen: Set[Node] = set()
        stack = [src]
        la = set(labels_avoid)
        while stack:
            x = stack.pop()
            if x in seen:
                continue
            seen.add(x)
            for lab, s in x.succ:
                if lab in la:
                    continue
                if avoid is not None and avoid(s):
                    continue
                stack.append(s)
        return seen

    def all_paths_pass(self, src: Node, dst: Node, pred: Callable[[Node], bool], labels_avoid: Iterable[str] = ()) -> bool:
        """True iff every path src -> dst contains a node (other than src) satisfying pred."""
        if pred(dst):
            return True
        return dst not in self.reachable(src, avoid=pred, labels_avoid=labels_avoid)

    def witness_path(self, src: Node, dst: Node, avoid: Callable[[Node], bool], labels_avoid: Iterable[str] = ()) -> List[Node]:
        """A path src -> dst that avoids `avoid` nodes (for reports)."""
        la = set(labels_avoid)
        prev: Dict[Node, Optional[Node]] = {src: None}
        queue = [src]
        while queue:
            x = queue.pop(0)
            if x is dst:
                break
            for lab, s in x.succ:
                if lab in la or s in prev or (avoid(s) and s is not dst):
                    continue
                prev[s] = x
                queue.append(s)
        if dst not in prev:
            return []
        out = []
        cur: Optional[Node] = dst
        while cur is not None:
            out.append(cur)
            cur = prev[cur]
        return list(reversed(out))

    def dominators(self) -> Dict[Node, Set[Node]]:
        if self._dom is None:
            self._dom = _dominators(self.live, self.entry, lambda n: [p for _, p in n.pred])
        return self._dom

    def dominates(self, a: Node, b: Node) -> bool:
        return a in self.dominators().get(b, set())

    def postdominators(self) -> Dict[Node, Set[Node]]:
        if self._pdom is None:
            end = Node(-1, "end")
            nodes = list(self.live) + [end]

            def preds(n: Node) -> List[Node]:  # predecessors in the reversed graph = successors
                if n is self.exit or n is self.raise_exit:
                    return [end]
                return [s for _, s in n.succ]

            self._pdom = _dominators(nodes, end, preds)
        return self._pdom

    def postdominates(self, a: Node, b: Node) -> bool:
        return a in self.postdominators().get(b, set())

    def control_deps(self, n: Node) -> Set[Tuple[Node, str]]:
        """Set of (branch node, label) on which `n` is directly control dependent."""
        out: Set[Tuple[Node, str]] = set()
        pd = self.postdominators()
        for a in self.live:
            if len(a.succ) < 2:
                continue
            for lab, b in a.succ:
                # n is control dependent on (a, lab) iff n postdominates b (or n is b) and n does not strictly postdominate a
                if (n is b or n in pd.get(b, set())) and not (n is not a and n in pd.get(a, set())):
                    out.add((a, lab))
        return out

    def transitive_control_deps(self, n: Node) -> Set[Tuple[Node, str]]:
        out: Set[Tuple[Node, str]] = set()
        work = [n]
        seen = set()
        while work:
            x = work.pop()
            if x in seen:
                continue
            seen.add(x)
            for a, lab in self.control_deps(x):
                if (a, lab) not in out:
                    out.add((a, lab))
                    work.append(a)
        return out

    def paths(self, src: Node, dsts: Iterable[Node], limit: int = 5000, skip_labels: Iterable[str] = ("exc",)) -> Iterator[List[Tuple[Node, str]]]:
        """Enumerate paths src -> any of dsts; each edge at most once per path (loops unrolled once).

        Yields lists of (node, label taken out of the node); the final element has label ''.
        """
        dset = set(dsts)
        skip = set(skip_labels)
        count = 0
        stack: List[Tuple[Node, List[Tuple[Node, str]], frozenset]] = [(src, [], frozenset())]
        while stack:
            node, path, used = stack.pop()
            if node in dset and path:
                count += 1
                if count > limit:
                    raise AnalysisError(f"path explosion in {self.fn.name}: more than {limit} paths")
                yield path + [(node, "")]
                continue
            for lab, s in node.succ:
                if lab in skip:
                    continue
                e = (node.id, lab, s.id)
                if e in used:
                    continue
                stack.append((s, path + [(node, lab)], used | {e}))
        return

    def back_edges(self) -> List[Tuple[Node, Node]]:
        dom = self.dominators()
        out = []
        for n in self.live:
            for lab, s in n.succ:
                if s in dom.get(n, set()):
                    out.append((n, s))
        return out


def _dominators(nodes: List[Node], root: Node, preds: Callable[[Node], List[Node]]) -> Dict[Node, Set[Node]]:
    allset = set(nodes)
    dom: Dict[Node, Set[Node]] = {n: set(allset) for n in nodes}
    dom[root] = {root}
    changed = True
    order = [n for n in nodes if n is not root]
    while changed:
        changed = False
        for n in order:
            ps = [p for p in preds(n) if p in dom]
            if not ps:
                new = {n}
            else:
                new = set.intersection(*(dom[p] for p in ps)) | {n}
            if new != dom[n]:
                dom[n] = new
                changed = True
    # nodes unreachable from root keep the full set; normalise to {n}
    return dom


def raised_class(st: ast.Raise) -> Optional[str]:
    e = st.exc
    if e is None:
        return None
    if isinstance(e, ast.Call):
        e = e.func
        # raise type(ex)(*ex.args)
        if isinstance(e, ast.Call) and isinstance(e.func, ast.Name) and e.func.id == "type":
            return None
    if isinstance(e, ast.Name):
        return e.id
    if isinstance(e, ast.Attribute):
        return e.attr
    return None


def handler_classes(h: ast.ExceptHandler) -> List[str]:
    """Names of the classes a handler catches; [] for a bare except."""
    t = h.type
    if t is None:
        return []
    elts = t.elts if isinstance(t, ast.Tuple) else [t]
    out = []
    for e in elts:
        if isinstance(e, ast.Name):
            out.append(e.id)
        elif isinstance(e, ast.Attribute):
            out.append(e.attr)
        else:
            out.append("BaseException")
    return out
