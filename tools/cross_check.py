#!/venv/bin/python
"""Detection power on refactored shapes: every self-test mutant that still applies after a kept refactor twin
(/verif/twins/*) has been applied must still fire.

For each twin T and each mutant M whose edit addresses a file that T touches: scratch copy of /repo's cisco_acl,
apply T's patch, apply M's edit (qualname + unique pattern; skipped when the anchor or pattern is gone after the
refactoring), run M's properties: each must exit 1 with a VIOLATION.  Nothing is executed but the checkers.
Prints the (twin, mutant, property) triples that stay silent and exits 1 when there is one.
"""
import glob, io, os, re, shutil, subprocess, sys, tempfile
from concurrent.futures import ProcessPoolExecutor
from contextlib import redirect_stdout

VERIF = os.path.dirname(os.path.dirname(os.path.abspath(__file__)))
sys.path.insert(0, VERIF)


def files_of(patch: str):
    return set(re.findall(r"^\+\+\+ b/cisco_acl/(\S+)", open(patch).read(), re.M))


def one(args):
    twin, patch, case = args
    from sa.selftest.runner import apply_edits
    from sa import check as chk

    tmp = tempfile.mkdtemp(prefix="verif-cross-")
    try:
        shutil.copytree("/repo/cisco_acl", os.path.join(tmp, "cisco_acl"))
        p = subprocess.run(["git", "apply", "--unsafe-paths", f"--directory={tmp}", patch], cwd=tmp, capture_output=True, text=True)
        if p.returncode:
            return (twin, case["id"], "twin-n/a", "")
        why = apply_edits(tmp, case["edits"])
        if why is not None:
            return (twin, case["id"], "n/a", why)
        out = []
        for pid in case["props"]:
            buf = io.StringIO()
            with redirect_stdout(buf):
                try:
                    code = chk.run_property(pid, "quick", tmp, os.path.join(tmp, "out"), os.path.join(tmp, "ev"), quiet=False)
                except Exception as ex:  # noqa: BLE001
                    code = 2
                    print(f"ANALYSIS-ERROR {type(ex).__name__}: {ex}")
            if code != 1:
                first = next((l for l in buf.getvalue().splitlines() if l.startswith(("ANALYSIS-ERROR", "  R"))), "")
                out.append(f"{pid} exit={code} {first[:160]}")
        return (twin, case["id"], "fired" if not out else "silent", "; ".join(out))
    finally:
        shutil.rmtree(tmp, ignore_errors=True)


def main() -> int:
    from sa.selftest.mutants import MUTANTS

    only = [a for a in sys.argv[1:] if not a.startswith("-")]
    work = []
    for d in sorted(glob.glob(os.path.join(VERIF, "twins", "*"))):
        name = os.path.basename(d)
        if only and name not in only:
            continue
        patch = os.path.join(d, "patch.diff")
        touched = files_of(patch)
        for m in MUTANTS:
            if any(e["file"] in touched for e in m["edits"]):
                work.append((name, patch, m))
    stats = {"fired": 0, "silent": 0, "n/a": 0, "twin-n/a": 0}
    from sa.check import preload

    preload()
    with ProcessPoolExecutor(max_workers=16) as ex:
        for twin, mid, status, detail in ex.map(one, work, chunksize=4):
            stats[status] += 1
            if status == "silent":
                print(f"SILENT twin={twin} mutant={mid}: {detail}")
    print(f"cross check: {len(work)} (twin, mutant) pairs: {stats}")
    return 1 if stats["silent"] else 0


sys.exit(main())
