#!/venv/bin/python
"""Evaluate a behaviour-preserving refactoring produced by an independent sub-agent.

usage: twin_eval.py <dir with refactor{k}.diff note{k}.md> <k> [--keep <name>]

Applies the diff to a scratch worktree of /repo (under /tmp, removed afterwards), re-runs the baseline
suite (327 passed expected) and every claimed check with --root <worktree>.  Every check must exit 0:
anything else is a false alarm (exit 1) or an analysis error (exit 2) of the checker.
With --keep the refactoring is stored as /verif/twins/<name>/ (patch.diff, note.md, meta.json) and is
replayed by the thorough tier of every property (must stay silent).
"""

from __future__ import annotations

import json
import os
import re
import shutil
import subprocess
import sys
import tempfile

VERIF = os.path.dirname(os.path.dirname(os.path.abspath(__file__)))


def sh(cmd, cwd=None, env=None):
    e = dict(os.environ)
    if env:
        e.update(env)
    p = subprocess.run(cmd, shell=True, cwd=cwd, env=e, capture_output=True, text=True)
    return p.returncode, p.stdout + p.stderr


def main() -> int:
    if "VERIF_SNAP" not in os.environ:
        sys.path.insert(0, os.path.join(VERIF, "tools"))
        from _snap import snapshot

        os.environ["VERIF_SNAP"] = snapshot()
    srcdir, k = sys.argv[1], sys.argv[2]
    keep = sys.argv[sys.argv.index("--keep") + 1] if "--keep" in sys.argv else None
    diff = os.path.join(srcdir, f"refactor{k}.diff")
    note = os.path.join(srcdir, f"note{k}.md")
    wt = tempfile.mkdtemp(prefix="verif-twin-")
    os.rmdir(wt)
    res = {"source": f"{srcdir} #{k}"}
    try:
        base = sys.argv[sys.argv.index("--base") + 1] if "--base" in sys.argv else "HEAD"
        rc, out = sh(f"git -C /repo worktree add -q --detach {wt} {base}")
        rc, out = sh(f"git apply {diff}", cwd=wt)
        if rc and base == "HEAD":
            # the refactoring was written against an older commit: evaluate it there
            sh(f"git -C /repo worktree remove --force {wt}")
            base = "b97578d"
            sh(f"git -C /repo worktree add -q --detach {wt} {base}")
            rc, out = sh(f"git apply {diff}", cwd=wt)
        res["base"] = base
        if rc:
            res["applies"] = False
            print(json.dumps(res, indent=1))
            return 2
        rc1, out1 = sh("/venv/bin/python -m pytest -q -p no:cacheprovider -n 8 tests", cwd=wt, env={"PYTHONPATH": wt})
        m = re.search(r"(\d+) passed", out1)
        res["suite_passed"] = int(m.group(1)) if m else 0
        sys.path.insert(0, VERIF)
        from sa.check import CLAIMED

        noisy, detail = [], {}
        tmpo = tempfile.mkdtemp(prefix="verif-twinout-")
        for p in CLAIMED:
            rc, out = sh(f"/venv/bin/python -m sa.check {p} --root {wt} --out {tmpo}/out --evidence {tmpo}/ev", cwd=os.environ.get("VERIF_SNAP", VERIF))
            if rc != 0:
                noisy.append(f"{p}:{rc}")
                detail[p] = [l.strip()[:300] for l in out.splitlines() if l.startswith("  R") or "ANALYSIS-ERROR" in l][:3]
        shutil.rmtree(tmpo, ignore_errors=True)
        res["noisy"] = noisy
        res["detail"] = detail
    finally:
        sh(f"git -C /repo worktree remove --force {wt}")
        shutil.rmtree(wt, ignore_errors=True)
    print(json.dumps(res, indent=1))
    if keep and res.get("suite_passed") == 327:
        d = os.path.join(VERIF, "twins", keep)
        os.makedirs(d, exist_ok=True)
        shutil.copy(diff, os.path.join(d, "patch.diff"))
        if os.path.exists(note):
            shutil.copy(note, os.path.join(d, "note.md"))
        with open(os.path.join(d, "meta.json"), "w", encoding="utf-8") as fh:
            json.dump(
                {
                    "kind": "behaviour-preserving refactoring by an independent sub-agent (given only an area of the source, nothing from /verif)",
                    "suite_passed": res["suite_passed"],
                    "what_was_run": ["baseline suite with the refactoring applied (327 passed + the known failure)", "every claimed check with --root <scratch worktree>: all must exit 0"],
                    "base_commit": res.get("base", "HEAD"),
                    "noisy_when_first_evaluated": res["noisy"],
                    "detail_when_first_evaluated": res["detail"],
                },
                fh,
                indent=1,
            )
    return 0


if __name__ == "__main__":
    sys.exit(main())
