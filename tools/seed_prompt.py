#!/venv/bin/python
"""Print the prompt given to an independent sub-agent that seeds breaking changes for one property.

The prompt contains only the property text and a scratch worktree path (nothing from /verif).
"""
import json
import sys

props = {json.loads(l)["id"]: json.loads(l) for l in open("/verif/properties.jsonl", encoding="utf-8")}


def prompt(pid: str) -> str:
    p = props[pid]
    return f"""You are helping to test a verification tool for the open-source Python library `cisco_acl` (vladimirs-git/cisco-acl, pure Python; parses, converts and analyses Cisco ACL text). Your job is to play the role of a developer who introduces a SUBTLE REGRESSION.

You have your own scratch git worktree of the repository at /tmp/seed-{pid} (work ONLY inside that directory; never touch /repo or /verif, never read anything under /verif). The library source is in /tmp/seed-{pid}/cisco_acl, its tests in /tmp/seed-{pid}/tests.

THE PROPERTY you must break (this is all you get; read the code to find where it is implemented):

  Title: {p['title']}
  Statement: {p['statement']}
  Quantified over: {p['quantifier']['text']}

TASK: produce THREE different, independent changes to the library source (under cisco_acl/), each of which breaks this property, while
  (a) the code still imports/compiles, and
  (b) the existing test suite still passes exactly as before: run it with
        cd /tmp/seed-{pid} && PYTHONPATH=/tmp/seed-{pid} /venv/bin/python -m pytest -q -p no:cacheprovider -n 8 tests
      (the single test tests/test__package.py::test__last_modified_date ALWAYS fails in this sandbox, also without any change - ignore it; every other test must pass: 327 passed).
Prefer realistic changes a maintainer could plausibly make (a refactor that goes slightly wrong, an off-by-one, a dropped call, a wrong variable, a condition that is too wide or too narrow, a reordered statement, a swallowed error, state that is not refreshed), and prefer changes that need something SPECIFIC to manifest (an unusual input, a boundary value, a multi-step sequence of operations, two cooperating sites that each look fine alone) rather than ones ordinary use would expose at once. The three changes should touch different mechanisms/places if possible. Do not edit tests. Do not add new files to the library. Keep each change small (a few lines).

For EACH change k in 1..3 deliver, inside /tmp/seed-{pid}/SEED/ (create the directory):
  - change{{k}}.diff : `git diff` output of that change alone against the pristine HEAD (apply each change to a clean tree: use `git checkout -- .` between changes so the diffs are independent),
  - demo{{k}}.py : a small standalone program (plain python, run as `PYTHONPATH=/tmp/seed-{pid} /venv/bin/python SEED/demo{{k}}.py`) that exits 0 and prints PASS on the pristine code and exits 1 (prints FAIL with an explanation) when change k is applied; it must demonstrate that the PROPERTY is violated (not merely that some internal function changed),
  - notes{{k}}.md : 5-10 lines: what was changed, why it breaks the property, what specific input/sequence is needed to see it.
You MUST verify all of this yourself: for each change run the full test suite with the change applied (327 passed + the 1 known failure), run demo k with the change applied (must FAIL) and on the pristine tree (must PASS). Leave the worktree CLEAN (pristine source, `git status` shows only the untracked SEED/ directory) when you finish.

Finally reply with a short summary: for each change, one line describing it and confirming the three verifications (tests pass with change / demo fails with change / demo passes without)."""


def prompt2(pid: str) -> str:
    """Round 2: same information (property text only), different emphasis: less central code, cooperating sites, state."""
    p = props[pid]
    files = ", ".join(p["anchors"]["files"])
    base = prompt(pid).replace(f"/tmp/seed-{pid}", f"/tmp/seed2-{pid}")
    base = base.replace("TASK: produce THREE different, independent changes", "TASK: produce FOUR different, independent changes")
    base = base.replace("For EACH change k in 1..3", "For EACH change k in 1..4")
    extra = f"""

ADDITIONAL GUIDANCE FOR THIS ROUND: the obvious one-line edits in the most central function have already been tried by others. Look elsewhere: helper functions the central code relies on, constructors and setters that prepare the state the central code reads, cooperating sites that must agree with each other (a writer and a reader, a table and its inverse, a source-side and a destination-side twin), values computed once and reused, code paths only taken for one platform / one object kind / an empty or single-element collection / a boundary number, and error-handling paths. The property's implementation is spread over these files: {files}. Use at least three different files or clearly different mechanisms across your four changes. A change may consist of two small edits in two places if neither edit alone looks wrong."""
    return base.replace("\nTASK:", extra + "\n\nTASK:", 1)


def prompt3(pid: str) -> str:
    """Round 3: as round 2, plus one line per change that was already tried for this property (so that effort goes
    elsewhere), plus a sandbox warning (no git stash: the stash is shared by all worktrees)."""
    import glob
    import os

    base = prompt2(pid).replace(f"/tmp/seed2-{pid}", f"/tmp/seed3-{pid}")
    tried = []
    for d in sorted(glob.glob(f"/verif/seeded/{pid}-*")):
        try:
            m = json.load(open(os.path.join(d, "meta.json"), encoding="utf-8"))
        except (OSError, ValueError):
            continue
        first = (m.get("needs_to_manifest", "").splitlines() or [""])[0].lstrip("# ").strip()
        if first:
            tried.append("  - " + first[:160])
    extra = (
        "\n\nALREADY TRIED for this property by earlier rounds (do NOT repeat these or close variants of them; find other mechanisms):\n"
        + "\n".join(tried)
        + "\n\nSANDBOX NOTE: never use `git stash` (the stash is shared by every worktree of this repository and other people work in parallel); to go back to the pristine tree save your diff with `git diff > SEED/changeK.diff` and run `git checkout -- .`, to re-apply use `git apply SEED/changeK.diff`."
    )
    return base.replace("\n\nTASK:", extra + "\n\nTASK:", 1)


def prompt4(pid: str) -> str:
    """Round 4: as round 3 (with the longer already-tried list), emphasis on histories, aliasing and rarely used kinds."""
    base = prompt3(pid).replace(f"/tmp/seed3-{pid}", f"/tmp/seed4-{pid}")
    extra = """

ADDITIONAL GUIDANCE FOR ROUND 4: three rounds of seeding have already covered the central functions, their helpers, the tables and the obvious boundary values. What has hardly been tried: (1) faults that need a HISTORY - an object that is built, then changed through two or three different setters or methods in a particular order, then asked; (2) sharing and aliasing - a list, dict or object handed out by one method and changed by another, a default argument or class attribute that is mutable, a copy that is not deep enough or too deep, an object adopted into a container and still referenced from outside; (3) rarely used object kinds and combinations - nested groups, `group-object` members, ASA platform, standard ACLs, empty containers, remarks next to entries, objects built from `data()` dictionaries or from `items=` instead of from text; (4) conditions that are true for every input the test-suite uses but not in general (a comparison that should be `<=`, a `startswith` that should be equality, a lookup by name that should be by identity or the reverse, an early `return`/`continue` on a value that is legitimately falsy); (5) error handling - a `try/except` that now also swallows a different error, an error raised after the object was already half updated, a warning path that skips more than the offending item. Choose mechanisms of these kinds."""
    return base.replace("\n\nALREADY TRIED", extra + "\n\nALREADY TRIED", 1)


def prompt5(pid: str) -> str:
    """Round 5: as round 4 (already-tried list grows), emphasis on the small print: patterns, formats, comparisons, arithmetic."""
    base = prompt3(pid).replace(f"/tmp/seed3-{pid}", f"/tmp/seed5-{pid}")
    extra = """

ADDITIONAL GUIDANCE FOR ROUND 5: four rounds of seeding have covered the central functions and their helpers, tables, boundary values, object histories, aliasing and rarely used object kinds. What is left is the small print: (1) regular expressions - an anchor, a quantifier, a character class, an alternation order, a flag, a greedy/non-greedy match, a group that became optional or non-capturing; (2) text handling - strip/split/join/partition details, case, separators, f-string fields, where blanks go, what happens with tabs or repeated blanks, trailing text; (3) comparisons and ordering - `__eq__`, `__hash__`, `__lt__`, sort keys, `<` vs `<=`, comparisons of strings that should be numbers, `is` vs `==`, truthiness of 0 / "" / empty containers; (4) arithmetic and bit operations - masks, shifts, prefix lengths, off-by-one in ranges, integer vs string numbers; (5) defaults and optional arguments - a default that changed, a keyword that is no longer passed on, a `kwargs.get` with the wrong key or default, `or` used for defaults where 0/""/[] are legitimate values; (6) log records and error types - which logger level, which exception class is raised or caught, a message that no longer names the offending line. Choose mechanisms of these kinds, and prefer places that the lists of earlier attempts below do not mention."""
    return base.replace("\n\nALREADY TRIED", extra + "\n\nALREADY TRIED", 1)


def prompt6(pid: str) -> str:
    """Round 6 (after the defect-hunt repairs): three changes, aimed at the code the last 25 commits changed."""
    base = prompt3(pid).replace(f"/tmp/seed3-{pid}", f"/tmp/seed6-{pid}")
    base = base.replace("TASK: produce FOUR different, independent changes", "TASK: produce THREE different, independent changes")
    base = base.replace("For EACH change k in 1..4", "For EACH change k in 1..3")
    extra = """

ADDITIONAL GUIDANCE FOR ROUND 6: the repository has just received about twenty-five small bug-fix commits (run `git log -25 --stat` and `git log -25 -p` in your worktree to see them). Freshly repaired code is where regressions happen: a later "clean-up" that undoes half of a fix, simplifies a guard a fix introduced, merges a helper a fix split off, moves a statement a fix had carefully placed (validate-then-store order, restore-on-error, copy-before-return, the key a table is filed under, which platforms a conversion applies to, which keyword arguments are handed on), or re-introduces the old behaviour for one platform / one object kind only. Aim your three changes at such places where they matter for THIS property; a plain revert of a whole fix commit is too easy - prefer a partial or disguised one, or a new fault in the repaired function."""
    return base.replace("\n\nALREADY TRIED", extra + "\n\nALREADY TRIED", 1)


def prompt_hunt(pid: str) -> str:
    """Defect hunt: an independent sub-agent looks for inputs / histories on which the CURRENT tree breaks the property.
    It gets the property text, a scratch worktree, and one line per defect that is already known (so that effort goes
    elsewhere); nothing else from /verif."""
    p = props[pid]
    files = ", ".join(p["anchors"]["files"])
    try:
        kf = json.load(open("/verif/known_findings.json", encoding="utf-8"))
        known = ["  - " + (k.get("what") or k.get("construct") or "")[:200] + " :: " + (k.get("input") or "")[:160] for k in kf.get("known", [])]
        known += ["  - (already repaired) " + f[:260] for f in kf.get("fixed", [])]
    except (OSError, ValueError):
        known = []
    return f"""You are reviewing the open-source Python library `cisco_acl` (vladimirs-git/cisco-acl, pure Python; parses, converts and analyses Cisco ACL text) for GENUINE DEFECTS against one stated property.

You have your own scratch git worktree of the repository at /tmp/hunt-{pid} (work ONLY inside that directory; never touch /repo or /verif, never read anything under /verif). The library source is in /tmp/hunt-{pid}/cisco_acl, its tests in /tmp/hunt-{pid}/tests, its documentation in README.rst and docs/.

THE PROPERTY (a user relies on it for EVERY input, object history and platform, not only for what the tests sample):

  Title: {p['title']}
  Statement: {p['statement']}
  Quantified over: {p['quantifier']['text']}

It is implemented across: {files}.

TASK: find concrete inputs, object histories (sequences of public operations) or configurations on which the library AS IT IS breaks this property. Read the code critically (every clause of the statement, every platform ios/nxos/asa where it is supported, standard and extended ACLs, numbered and unnumbered entries, grouped and flat ACLs, nested address groups, objects built from text / from `items=` / from `data()` dictionaries, boundary numbers, empty containers, repeated or equal members, names with unusual but legal characters), form hypotheses, and TEST each one by running small scripts against the worktree:
      cd /tmp/hunt-{pid} && PYTHONPATH=/tmp/hunt-{pid} /venv/bin/python your_script.py
A finding counts only if (a) it uses the PUBLIC API the way the README/docs allow, (b) the observed behaviour contradicts a clause of the statement above (quote the clause), and (c) it is not merely a documented error (ValueError/TypeError for input the docs call invalid is fine behaviour unless the statement says otherwise). Differences that the statement does not speak about are NOT findings. Be sceptical of your own findings: re-read the statement before you keep one.

ALREADY KNOWN (do not report these again or close variants of them):
{chr(10).join(known)}

Deliver, inside /tmp/hunt-{pid}/HUNT/ (create the directory), for each finding k (at most 5; fewer, well-established findings are better than many doubtful ones; ZERO findings is an acceptable, honest result - then say what you tried):
  - finding{{k}}.py : a small standalone program that exits 1 and prints FAIL with an explanation on the current code (and would exit 0 / print PASS if the property held),
  - finding{{k}}.md : the clause that is violated, the minimal input/history, what happens, what should happen, where in the code the cause is (file, function, line), and how sure you are,
  - if you can: fix{{k}}.diff : a MINIMAL patch a maintainer would accept (corrects the behaviour, does not remove it or special-case your input) with which finding{{k}}.py passes and the existing test suite still passes unedited:
        cd /tmp/hunt-{pid} && PYTHONPATH=/tmp/hunt-{pid} /venv/bin/python -m pytest -q -p no:cacheprovider -n 8 tests
    (the single test tests/test__package.py::test__last_modified_date ALWAYS fails in this sandbox - ignore it; every other test must pass: 327 passed). Produce the diff with `git diff > HUNT/fix{{k}}.diff`, then `git checkout -- .`.
SANDBOX NOTE: never use `git stash` (it is shared by every worktree of this repository and other people work in parallel). Leave the worktree CLEAN (pristine source; only the untracked HUNT/ directory) when you finish.

Finally reply with a short summary: one paragraph per finding (clause, input, observed vs expected, cause, whether a fix diff is included and verified), then one paragraph on what you examined and found to hold."""


if __name__ == "__main__":
    if len(sys.argv) > 2 and sys.argv[2] == "6":
        print(prompt6(sys.argv[1]))
        sys.exit(0)
    if len(sys.argv) > 2 and sys.argv[2] == "hunt":
        print(prompt_hunt(sys.argv[1]))
        sys.exit(0)
    if len(sys.argv) > 2 and sys.argv[2] == "5":
        print(prompt5(sys.argv[1]))
        sys.exit(0)
    if len(sys.argv) > 2 and sys.argv[2] == "4":
        print(prompt4(sys.argv[1]))
        sys.exit(0)
    if len(sys.argv) > 2 and sys.argv[2] == "3":
        print(prompt3(sys.argv[1]))
        sys.exit(0)
    print(prompt2(sys.argv[1]) if len(sys.argv) > 2 and sys.argv[2] == "2" else prompt(sys.argv[1]))
