#!/venv/bin/python
"""Re-run every claimed check against every kept seed (/verif/seeded/*) and refresh meta.json['caught_by'].

Each seed is applied to its own scratch worktree of /repo under /tmp (removed afterwards); checks are run
with --root <worktree>, so /repo itself and /verif/evidence are never touched.  With --full the demo and
the baseline suite are re-confirmed as well.  Also rewrites the generated table in DESIGN.md.
"""

from __future__ import annotations

import glob
import json
import os
import re
import shutil
import subprocess
import sys
import tempfile
from concurrent.futures import ThreadPoolExecutor

VERIF = os.path.dirname(os.path.dirname(os.path.abspath(__file__)))
sys.path.insert(0, VERIF)


def sh(cmd, cwd=None, env=None):
    e = dict(os.environ)
    if env:
        e.update(env)
    p = subprocess.run(cmd, shell=True, cwd=cwd, env=e, capture_output=True, text=True)
    return p.returncode, p.stdout + p.stderr


def one(d: str, full: bool, claimed):
    name = os.path.basename(d)
    wt = tempfile.mkdtemp(prefix="verif-seedre-")
    os.rmdir(wt)
    meta_p = os.path.join(d, "meta.json")
    meta = json.load(open(meta_p, encoding="utf-8"))
    try:
        rc, out = sh(f"git -C /repo worktree add -q --detach {wt} HEAD")
        if rc:
            return name, None, out
        if full:
            shutil.copy(os.path.join(d, "demo.py"), os.path.join(wt, "_demo.py"))
            meta["demo_pristine_exit"], _ = sh("/venv/bin/python _demo.py", cwd=wt, env={"PYTHONPATH": wt})
        rc, out = sh(f"git apply {os.path.join(d, 'patch.diff')}", cwd=wt)
        if rc:
            return name, None, "patch does not apply: " + out
        if full:
            rc1, out1 = sh("/venv/bin/python -m pytest -q -p no:cacheprovider -n 4 tests", cwd=wt, env={"PYTHONPATH": wt})
            m = re.search(r"(\d+) passed", out1)
            meta["suite_passed"] = int(m.group(1)) if m else 0
            meta["demo_changed_exit"], _ = sh("/venv/bin/python _demo.py", cwd=wt, env={"PYTHONPATH": wt})
            os.remove(os.path.join(wt, "_demo.py"))
        caught, errors, detail = [], [], {}
        tmpo = tempfile.mkdtemp(prefix="verif-seedout-")
        for p in claimed:
            rc, out = sh(f"/venv/bin/python -m sa.check {p} --root {wt} --out {tmpo}/out --evidence {tmpo}/ev", cwd=os.environ.get("VERIF_SNAP", VERIF))
            if rc == 1:
                caught.append(p)
                detail[p] = [l.strip()[:260] for l in out.splitlines() if l.startswith("  R")][:3]
            elif rc != 0:
                errors.append(p)
                detail[p] = [l[:260] for l in out.splitlines() if "ANALYSIS-ERROR" in l][:2]
        shutil.rmtree(tmpo, ignore_errors=True)
        meta["caught_by"], meta["analysis_errors"], meta["detail"] = caught, errors, detail
        with open(meta_p, "w", encoding="utf-8") as fh:
            json.dump(meta, fh, indent=1)
        return name, meta, ""
    finally:
        sh(f"git -C /repo worktree remove --force {wt}")
        shutil.rmtree(wt, ignore_errors=True)


def table(metas) -> str:
    rows = ["| seed | breaks | what was changed (first line of the seeder's notes) | caught by | rule that fires for the owning property |", "|---|---|---|---|---|"]
    for name, m in sorted(metas.items()):
        first = (m.get("needs_to_manifest", "").splitlines() or [""])[0].lstrip("# ").strip()
        first = re.sub(r"^Change \d+\s*[-:–]\s*", "", first)[:110].replace("|", "/")
        own = m["breaks_property"]
        det = m.get("detail", {}).get(own) or next(iter(m.get("detail", {}).values()), [""])
        rule = det[0].split(" ")[0] if det and det[0] else ""
        rows.append(f"| {name} | {own} | {first} | {', '.join(m['caught_by']) or ('**missed** (documented: outside what the check decides)' if m.get('documented_miss') else '**missed**')}{' (errors: ' + ', '.join(m['analysis_errors']) + ')' if m.get('analysis_errors') else ''} | {rule} |")
    return "\n".join(rows)


def main() -> int:
    if "VERIF_SNAP" not in os.environ:
        sys.path.insert(0, os.path.join(VERIF, "tools"))
        from _snap import snapshot

        os.environ["VERIF_SNAP"] = snapshot()
    from sa.check import CLAIMED

    full = "--full" in sys.argv
    dirs = sorted(glob.glob(os.path.join(VERIF, "seeded", "*")))
    only = [a for a in sys.argv[1:] if not a.startswith("--")]
    if only:
        dirs = [d for d in dirs if os.path.basename(d) in only]
    metas = {}
    with ThreadPoolExecutor(max_workers=14) as ex:
        for name, meta, err in ex.map(lambda d: one(d, full, CLAIMED), dirs):
            if meta is None:
                print(f"{name}: ERROR {err}")
                continue
            metas[name] = meta
            own = meta["breaks_property"]
            flag = "" if own in meta["caught_by"] else ("  <-- not by its own property" if meta["caught_by"] else "  <-- MISSED")
            print(f"{name}: caught_by={meta['caught_by']} errors={meta['analysis_errors']}{flag}")
    if not only:
        allm = {os.path.basename(d): json.load(open(os.path.join(d, "meta.json"), encoding="utf-8")) for d in sorted(glob.glob(os.path.join(VERIF, "seeded", "*")))}
        p = os.path.join(VERIF, "DESIGN.md")
        s = open(p, encoding="utf-8").read()
        a, b = "<!-- SEED-TABLE-BEGIN -->", "<!-- SEED-TABLE-END -->"
        if a in s and b in s:
            s = s[: s.index(a) + len(a)] + "\n" + table(allm) + "\n" + s[s.index(b) :]
            open(p, "w", encoding="utf-8").write(s)
            print("DESIGN.md seed table rewritten")
    return 0


if __name__ == "__main__":
    sys.exit(main())
