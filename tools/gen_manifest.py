#!/venv/bin/python
"""Regenerate /verif/MANIFEST.json from the rule modules' own metadata (run from /verif)."""

from __future__ import annotations

import importlib
import json
import os
import subprocess
import sys

HERE = os.path.dirname(os.path.dirname(os.path.abspath(__file__)))
sys.path.insert(0, HERE)

TECHNIQUE = {
    "C01": "static analysis: regex-AST group/key agreement, def-use from grammar pieces to Ace fields, CFG must-pass-through of normalisation and validation",
    "C02": "static analysis: class attribute tables vs platform-setter effects (exhaustive propagation), CFG dominance of split-before-convert, exception summaries of renderers",
    "C03": "static analysis: CFG conjunction-completeness over derived packet fields, skip-taint region analysis, sibling AST normalisation, set-inclusion normal forms, folded protocol tables",
    "C04": "static analysis: effect summaries (query purity), def-use of the report object, slice/offset structure of the removal, CFG must-pass-through of the regroup",
    "C05": "static analysis: memo soundness from effect sets and hash keys, definite assignment and validate-before-commit on the setter CFG, relational guard normal form, handler-order analysis on the call graph",
    "C06": "static analysis: writer/reader keyword agreement from folded literals and regex ASTs, render-reads vs parse-writes attribute sets",
    "C07": "static analysis: def-use and dominance in the config drivers (conversion before construction, filter guards the append, comment filter dominates the views), key agreement",
    "C08": "static analysis: operator decision tables by path-condition folding, symbolic end/offset agreement of forward and inverse maps, interval normal forms, order lattice, single-writer effects",
    "C09": "static analysis: constant folding of module tables from source + path-condition enumeration of the table selector; exhaustive over the finite tables",
    "C10": "static analysis: interval normal forms of the wrapper guards vs the stated ranges, transitive write-set, loop/descent structure on the CFG",
    "C11": "static analysis: skip-taint region analysis (independence/monotonicity), CFG attribution bookkeeping of the shading loop, sibling AST normalisation",
    "C12": "static analysis: path enumeration with parameter specialisation (account-or-report), handler class/ordering discipline, order lattice of the item list, loop-body path classification",
    "C13": "static analysis: def-use taint of candidate/container operands (direction of every containment test), quantifier structure on the CFG (for-all over the candidate's members, exists over the container's members), list-level loop-nest shape",
    "C15": "static analysis: loop-body linear-flow (each element placed exactly once), order lattice, sequence-first comparison structure, effect summaries of list operations and estimates",
    "C16": "static analysis: exporter/constructor key agreement, identity plumbing at re-initialisation sites, freshness/aliasing of exported values",
    "C17": "static analysis: hidden carried state (attributes surviving or wiped by re-initialisation), module-level mutable state, identity-keyed memo",
    "C19": "static analysis: additive/subtractive classification of operator branches vs the splittable set, per-iteration freshness, splice-in-place linear flow, dominance of split before conversion",
    "C20": "static analysis: exception escape analysis over the call graph with obligation discharge, key agreement, recursion SCC classification, loop variants, regex backtracking hazards",
}

NOT_APPLICABLE = {
    "C14": "collapse_ is a work-list algorithm whose result depends on the values popped and inserted; set preservation, minimality and termination order are properties of values. The wrappers' type guards are visible statically but claiming the property through them would be a proxy.",
    "C18": "exact cover, ports-per-line limits and the range/eq policy are arithmetic over the request string (chunk boundaries, for/else flush, vlist.to_multi); realistic faults (off-by-one chunk, dropped tail, inverted flag) leave the code shape intact, so no necessary structural clause exists.",
}


def main() -> int:
    props = [json.loads(l) for l in open(os.path.join(HERE, "properties.jsonl"), encoding="utf-8")]
    checks = []
    na = []
    served = []
    for p in props:
        pid = p["id"]
        if pid in NOT_APPLICABLE:
            na.append({"property_id": pid, "reason": NOT_APPLICABLE[pid]})
            continue
        mod = importlib.import_module(f"sa.rules.{pid.lower()}")
        if getattr(mod, "EXPLANATION", "") == "not implemented":
            na.append({"property_id": pid, "reason": "rules designed (DESIGN.md §4) but not yet implemented in this round; not claimed until they run clean"})
            continue
        served.append(pid)
        checks.append(
            {
                "property_id": pid,
                "quick_cmd": f"./check {pid} --tier quick",
                "thorough_cmd": f"./check {pid} --tier thorough",
                "evidence_file": f"evidence/{pid}.json",
                "replay_cmd_template": f"./check {pid} --replay {{path}}",
                "engine": "sa",
                "level_claimed": {"category": mod.LEVEL, "text": mod.EXPLANATION, "design_ref": f"DESIGN.md §4 {pid}"},
                "level_note": "Trusted base: CPython ast/symtable/re._parser; the in-house resolver, CFG and effect summaries of /verif/sa (name-level, object-insensitive); "
                + "; ".join(getattr(mod, "ASSUMPTIONS", [])),
                "technique": TECHNIQUE[pid],
            }
        )
    fixes = subprocess.run(["git", "-C", "/repo", "log", "--format=%H %s", "--grep=^fix:"], capture_output=True, text=True).stdout.strip().splitlines()
    manifest = {
        "version": 1,
        "setup_cmd": "/venv/bin/python -m sa.check --selfcheck",
        "hooks": {
            "guard": "CISCO_ACL_VERIF",
            "enable": "none needed: the checks read /repo's source (ast); nothing is compiled in or executed, so no hook exists in /repo",
            "baseline_off_cmd": "cd /repo && /venv/bin/python -m pytest -ra -q -p no:cacheprovider --timeout=900 --continue-on-collection-errors",
            "source_commits": [l.split()[0] for l in fixes],
            "add_only": True,
        },
        "engines": [
            {
                "name": "sa",
                "path": "sa/",
                "serves_properties": served,
                "kind_free_text": "repository-specific static analyser over /repo's current source: program model (ast + symtable), constant folder, per-function CFG with dominators/control dependence, annotation-based type inference, call graph, effect and exception summaries, interval/relation/inclusion normal forms, regex ASTs (re._parser); plus an AST-mutant self-test of the checker itself",
            }
        ],
        "checks": checks,
        "not_applicable": na,
        "notes": "All checks are static: nothing under cisco_acl is imported or executed. source_commits lists the unguarded 'fix:' repairs of genuine defects (no hooks). Known findings: /verif/known_findings.json.",
    }
    with open(os.path.join(HERE, "MANIFEST.json"), "w", encoding="utf-8") as fh:
        json.dump(manifest, fh, indent=1, ensure_ascii=False)
        fh.write("\n")
    print(f"MANIFEST.json: {len(checks)} checks, {len(na)} not_applicable")
    return 0


if __name__ == "__main__":
    sys.exit(main())
