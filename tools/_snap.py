"""Snapshot of the checker for long batteries: sub-processes run `python -m sa.check` from a private copy, so editing
/verif/sa while a battery runs cannot reach them.  The copy lives under /tmp and is removed at exit."""
import atexit, os, shutil, tempfile

VERIF = os.path.dirname(os.path.dirname(os.path.abspath(__file__)))


def snapshot() -> str:
    d = tempfile.mkdtemp(prefix="verif-snap-")
    shutil.copytree(os.path.join(VERIF, "sa"), os.path.join(d, "sa"), ignore=shutil.ignore_patterns("__pycache__"))
    shutil.copy(os.path.join(VERIF, "known_findings.json"), d)
    atexit.register(shutil.rmtree, d, True)
    return d
