#!/venv/bin/python
"""Re-run chosen (twin, mutant) pairs of tools/cross_check.py with the current checker: `cross_pairs.py TWIN:MUTANT-ID-PREFIX ...`."""
import io, os, shutil, subprocess, sys, tempfile
from contextlib import redirect_stdout

VERIF = os.path.dirname(os.path.dirname(os.path.abspath(__file__)))
sys.path.insert(0, VERIF)


def one(twin, case):
    from sa.selftest.runner import apply_edits
    from sa import check as chk

    patch = os.path.join(VERIF, "twins", twin, "patch.diff")
    tmp = tempfile.mkdtemp(prefix="verif-cross-")
    try:
        shutil.copytree("/repo/cisco_acl", os.path.join(tmp, "cisco_acl"))
        p = subprocess.run(["git", "apply", "--unsafe-paths", f"--directory={tmp}", patch], cwd=tmp, capture_output=True, text=True)
        if p.returncode:
            return "twin-n/a"
        why = apply_edits(tmp, case["edits"])
        if why is not None:
            return "n/a " + why
        out = []
        for pid in case["props"]:
            buf = io.StringIO()
            with redirect_stdout(buf):
                try:
                    code = chk.run_property(pid, "quick", tmp, os.path.join(tmp, "out"), os.path.join(tmp, "ev"), quiet=False)
                except Exception as ex:  # noqa: BLE001
                    code = 2
            if code != 1:
                out.append(f"{pid} exit={code}")
        return "fired" if not out else "SILENT " + "; ".join(out)
    finally:
        shutil.rmtree(tmp, ignore_errors=True)


def main() -> int:
    from sa.selftest.mutants import MUTANTS

    bad = 0
    for a in sys.argv[1:]:
        twin, mid = a.split(":", 1)
        for m in MUTANTS:
            if m["id"].startswith(mid):
                r = one(twin, m)
                print(twin, m["id"], r)
                bad += r.startswith("SILENT")
    return 1 if bad else 0


sys.exit(main())
