#!/venv/bin/python
"""Re-run every claimed check against every kept refactor twin (/verif/twins/*): all must exit 0.

Each twin is applied to a scratch copy of /repo's cisco_acl (under /tmp, removed afterwards); nothing is executed
but the checkers.  Prints the noisy (twin, property) pairs and exits 1 when there is one.
"""
import glob, os, sys
from concurrent.futures import ProcessPoolExecutor

VERIF = os.path.dirname(os.path.dirname(os.path.abspath(__file__)))
sys.path.insert(0, VERIF)


def main() -> int:
    from sa.check import CLAIMED
    from sa.selftest.runner import _run_seed

    only = [a for a in sys.argv[1:] if not a.startswith("-")]
    work = []
    for d in sorted(glob.glob(os.path.join(VERIF, "twins", "*"))):
        name = os.path.basename(d)
        if only and name not in only:
            continue
        for p in CLAIMED:
            work.append((f"{name}", os.path.join(d, "patch.diff"), p, "/repo"))
    bad = 0
    from sa.check import preload

    preload()
    with ProcessPoolExecutor(max_workers=16) as ex:
        for (name, _pd, pid, _r), r in zip(work, ex.map(_run_seed, work)):
            if r["status"] == "n/a":
                print(f"{name} {pid}: n/a {r['why']}")
                bad += 1
            elif r["exit"] != 0:
                print(f"{name} {pid}: exit={r['exit']} {r['first']}")
                bad += 1
    print(f"twin recheck: {len(work)} (twin, property) pairs, {bad} noisy")
    return 1 if bad else 0


sys.exit(main())
