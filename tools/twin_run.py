#!/venv/bin/python
"""Debug aid: apply a kept twin (or seed) to a scratch copy of /repo's tree and print what the given checks say.

usage: twin_run.py <twins/NAME | seeded/NAME | path/to.diff> [PROP ...] [--base COMMIT]
"""
import io, json, os, shutil, subprocess, sys, tempfile
from contextlib import redirect_stdout

VERIF = os.path.dirname(os.path.dirname(os.path.abspath(__file__)))
sys.path.insert(0, VERIF)


def main():
    args = [a for a in sys.argv[1:]]
    base = None
    if "--base" in args:
        i = args.index("--base"); base = args[i + 1]; del args[i:i + 2]
    name, props = args[0], args[1:]
    patch = name if name.endswith(".diff") else os.path.join(VERIF, name, "patch.diff")
    meta = os.path.join(os.path.dirname(patch), "meta.json")
    if base is None and os.path.exists(meta):
        base = json.load(open(meta)).get("base_commit")
    from sa.check import CLAIMED
    from sa import check as chk
    props = props or CLAIMED
    tmp = tempfile.mkdtemp(prefix="verif-twinrun-")
    try:
        if base and base != "HEAD":
            subprocess.run(f"git -C /repo archive {base} cisco_acl | tar -x -C {tmp}", shell=True, check=True)
        else:
            shutil.copytree("/repo/cisco_acl", os.path.join(tmp, "cisco_acl"))
        p = subprocess.run(["git", "apply", "--unsafe-paths", f"--directory={tmp}", patch], cwd=tmp, capture_output=True, text=True)
        if p.returncode:
            print("patch does not apply:", p.stderr); return 2
        worst = 0
        for pid in props:
            buf = io.StringIO()
            with redirect_stdout(buf):
                try:
                    code = chk.run_property(pid, "quick", tmp, os.path.join(tmp, "out"), os.path.join(tmp, "ev"), quiet=False)
                except Exception as ex:
                    import traceback; traceback.print_exc(file=sys.stdout)
                    code = 2
            worst = max(worst, code)
            print(f"== {pid} exit={code}")
            if code:
                for l in buf.getvalue().splitlines():
                    if l.startswith(("  R", "ANALYSIS-ERROR", "VIOLATION", "Traceback", "  File", "    ")) or "Error" in l:
                        print(l[:600])
        return worst
    finally:
        shutil.rmtree(tmp, ignore_errors=True)


sys.exit(main())
