#!/venv/bin/python
"""Confirm a seeded change and run every claimed check against it.

usage: seed_eval.py <src dir with change{k}.diff demo{k}.py notes{k}.md> <k> <property id> [--keep <name>]

Steps (all in a scratch worktree of /repo under /tmp, removed afterwards):
  1. demo on the pristine tree must exit 0,
  2. apply the change; the baseline suite must still give 327 passed (+ the 1 known failure),
  3. demo with the change must exit non-zero,
  4. every claimed check is run with --root <worktree>; exit codes are recorded.
With --keep the seed is stored as /verif/seeded/<name>/ (patch.diff, demo.py, notes.md, meta.json).
"""

from __future__ import annotations

import json
import os
import re
import shutil
import subprocess
import sys
import tempfile

VERIF = os.path.dirname(os.path.dirname(os.path.abspath(__file__)))


def sh(cmd, cwd=None, env=None, timeout=900):
    e = dict(os.environ)
    if env:
        e.update(env)
    p = subprocess.run(cmd, shell=True, cwd=cwd, env=e, capture_output=True, text=True, timeout=timeout)
    return p.returncode, p.stdout + p.stderr


def main() -> int:
    if "VERIF_SNAP" not in os.environ:
        sys.path.insert(0, os.path.join(VERIF, "tools"))
        from _snap import snapshot

        os.environ["VERIF_SNAP"] = snapshot()
    srcdir, k, pid = sys.argv[1], sys.argv[2], sys.argv[3]
    keep = sys.argv[sys.argv.index("--keep") + 1] if "--keep" in sys.argv else None
    diff = os.path.join(srcdir, f"change{k}.diff")
    demo = os.path.join(srcdir, f"demo{k}.py")
    notes = os.path.join(srcdir, f"notes{k}.md")
    wt = tempfile.mkdtemp(prefix="verif-seed-")
    os.rmdir(wt)
    res = {"property": pid, "source": f"{srcdir} #{k}"}
    try:
        rc, out = sh(f"git -C /repo worktree add -q --detach {wt} HEAD")
        if rc:
            print(out)
            return 2
        shutil.copy(demo, os.path.join(wt, "_demo.py"))
        env = {"PYTHONPATH": wt}
        rc0, out0 = sh(f"/venv/bin/python _demo.py", cwd=wt, env=env)
        res["demo_pristine_exit"] = rc0
        rc, out = sh(f"git apply {diff}", cwd=wt)
        if rc:
            print("patch does not apply:", out)
            res["applies"] = False
            print(json.dumps(res, indent=1))
            return 2
        rc1, out1 = sh("/venv/bin/python -m pytest -q -p no:cacheprovider -n 8 tests", cwd=wt, env=env)
        m = re.search(r"(\d+) passed", out1)
        f = re.search(r"(\d+) failed", out1)
        res["suite_passed"] = int(m.group(1)) if m else 0
        res["suite_failed"] = int(f.group(1)) if f else 0
        rc2, out2 = sh(f"/venv/bin/python _demo.py", cwd=wt, env=env)
        res["demo_changed_exit"] = rc2
        res["demo_changed_tail"] = out2.strip().splitlines()[-3:]
        os.remove(os.path.join(wt, "_demo.py"))
        res["confirmed"] = rc0 == 0 and rc2 != 0 and res["suite_passed"] == 327 and res["suite_failed"] <= 1
        sys.path.insert(0, VERIF)
        from sa.check import CLAIMED
        import importlib

        caught, errors, detail = [], [], {}
        tmpo = tempfile.mkdtemp(prefix="verif-seedout-")
        for p in CLAIMED:
            mod = importlib.import_module(f"sa.rules.{p.lower()}")
            if getattr(mod, "EXPLANATION", "") == "not implemented":
                continue
            rc, out = sh(f"/venv/bin/python -m sa.check {p} --root {wt} --out {tmpo}/out --evidence {tmpo}/ev", cwd=os.environ.get("VERIF_SNAP", VERIF))
            if rc == 1:
                caught.append(p)
                detail[p] = [l.strip()[:260] for l in out.splitlines() if l.startswith("  R")][:4]
            elif rc != 0:
                errors.append(p)
                detail[p] = [l[:260] for l in out.splitlines() if "ANALYSIS-ERROR" in l][:2]
        shutil.rmtree(tmpo, ignore_errors=True)
        res["caught_by"] = caught
        res["analysis_errors"] = errors
        res["detail"] = detail
        res["caught_by_own_property"] = pid in caught
    finally:
        sh(f"git -C /repo worktree remove --force {wt}")
        shutil.rmtree(wt, ignore_errors=True)
    print(json.dumps(res, indent=1))
    if keep and res.get("confirmed"):
        d = os.path.join(VERIF, "seeded", keep)
        os.makedirs(d, exist_ok=True)
        shutil.copy(diff, os.path.join(d, "patch.diff"))
        shutil.copy(demo, os.path.join(d, "demo.py"))
        if os.path.exists(notes):
            shutil.copy(notes, os.path.join(d, "notes.md"))
        meta = {
            "breaks_property": pid,
            "origin": "independent sub-agent given only the property text and a scratch worktree",
            "needs_to_manifest": open(notes, encoding="utf-8").read().strip() if os.path.exists(notes) else "",
            "what_was_run": [
                "demo.py on the pristine tree (exit 0)",
                "baseline suite with the change applied: 327 passed + the 1 known failure",
                "demo.py with the change applied (non-zero exit)",
                "every claimed check with --root <scratch worktree carrying the change>",
            ],
            "demo_pristine_exit": res["demo_pristine_exit"],
            "demo_changed_exit": res["demo_changed_exit"],
            "suite_passed": res["suite_passed"],
            "caught_by": res["caught_by"],
            "analysis_errors": res["analysis_errors"],
            "detail": res["detail"],
        }
        with open(os.path.join(d, "meta.json"), "w", encoding="utf-8") as fh:
            json.dump(meta, fh, indent=1)
    return 0


if __name__ == "__main__":
    sys.exit(main())
